#!/bin/bash
# usage: bin/try_seed.sh <seeded/dir> <prop> [<prop>...]   -- applies the seeded patch to /repo, runs the quick checks, reverts
set -u
DIR="$1"; shift
cd /verif
# runs on a patched tree must not overwrite the evidence of the unchanged tree
export VERIF_EVIDENCE_DIR=/verif/scratch/evidence_seeded
mkdir -p $VERIF_EVIDENCE_DIR
if [ -n "$(git -C /repo status --porcelain)" ]; then echo "/repo not clean"; exit 3; fi
git -C /repo apply "$(realpath "$DIR")/patch.diff" || { echo "patch does not apply"; exit 3; }
for p in "$@"; do
  out=$(bin/check $p ${TIER:-quick} 2>&1)
  echo "$out" | grep -E "verdict=|^VIOLATION|INCONCLUSIVE" | head -3
  echo "$out" | grep -E "violation:" | head -2
done
git -C /repo checkout -- .
git -C /repo status --short
