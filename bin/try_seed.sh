#!/bin/bash
# usage: bin/try_seed.sh <seeded/dir> <prop> [<prop>...]   -- applies the seeded patch to /repo, runs the quick checks, reverts
set -u
DIR="$1"; shift
cd /verif
if [ -n "$(git -C /repo status --porcelain)" ]; then echo "/repo not clean"; exit 3; fi
git -C /repo apply "$(realpath "$DIR")/patch.diff" || { echo "patch does not apply"; exit 3; }
for p in "$@"; do
  out=$(bin/check $p ${TIER:-quick} 2>&1)
  echo "$out" | grep -E "verdict=|^VIOLATION|INCONCLUSIVE" | head -3
  echo "$out" | grep -E "violation:" | head -2
done
git -C /repo checkout -- .
git -C /repo status --short
