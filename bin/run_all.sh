#!/bin/bash
# usage: bin/run_all.sh [quick|thorough] [ids...]  -- runs every check registered in MANIFEST.json, prints one line each
cd "$(dirname "$0")/.."
TIER="${1:-quick}"; shift
IDS="$@"
if [ -z "$IDS" ]; then IDS=$(python3 -c "import json; print(' '.join(c['property_id'] for c in json.load(open('MANIFEST.json'))['checks']))"); fi
for p in $IDS; do
  start=$(date +%s)
  out=$(bin/check $p $TIER 2>&1); code=$?
  end=$(date +%s)
  echo "$p exit=$code $((end-start))s $(echo "$out" | grep -E 'verdict=' | sed 's/.*evaluations/evaluations/')"
  echo "$out" | grep -E "^VIOLATION|INCONCLUSIVE|KNOWN-FINDING" | head -3
done
