#!/bin/bash
# usage: bin/seed_regression.sh [seed-dir-names...]
# Re-applies every kept seeded defect (seeded/<name>/patch.diff) to /repo, runs the quick check of the property the
# seed was written against (first three characters of <name>, e.g. C14-b -> C14), reverts, and reports whether the
# check still catches it. Workload changes alter RNG streams, so this is re-run after every strengthening.
# Exit 0 iff every seed is caught. Never run concurrently with anything else that builds from /repo.
set -u
cd /verif
# runs on a patched tree must not overwrite the evidence of the unchanged tree
export VERIF_EVIDENCE_DIR=/verif/scratch/evidence_seeded
mkdir -p $VERIF_EVIDENCE_DIR
names=("$@")
if [ ${#names[@]} -eq 0 ]; then names=($(ls seeded | sort)); fi
missed=0
for name in "${names[@]}"; do
  d=seeded/$name
  [ -f $d/patch.diff ] || continue
  prop=${name:0:3}
  if [ -n "$(git -C /repo status --porcelain)" ]; then echo "/repo not clean"; exit 3; fi
  git -C /repo apply "$(realpath $d)/patch.diff" || { echo "$name patch does not apply"; missed=$((missed+1)); continue; }
  out=$(bin/check $prop quick 2>&1); rc=$?
  git -C /repo checkout -- .
  if [ $rc -eq 1 ] && echo "$out" | grep -q "^VIOLATION property=$prop"; then
    echo "$name caught by $prop: $(echo "$out" | grep -m1 'violation:' | cut -c1-160)"
  else
    echo "$name MISSED by $prop (exit $rc): $(echo "$out" | grep -m1 -E 'verdict=|INCONCLUSIVE' | cut -c1-160)"
    missed=$((missed+1))
  fi
done
# leave the harness built from the clean tree
bin/check C13 quick >/dev/null 2>&1
echo "seeds missed: $missed"
[ $missed -eq 0 ]
