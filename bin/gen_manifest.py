#!/usr/bin/env python3
"""Regenerates /verif/MANIFEST.json from the table below (single source of truth)."""
import json, subprocess, os

ROOT = os.path.dirname(os.path.dirname(os.path.abspath(__file__)))
props = [json.loads(l) for l in open(os.path.join(ROOT, "properties.jsonl"))]

CSO_NOTE = ("Trusted base: plonky2's gate constraint evaluators (the code the prover and verifier use), its Poseidon/Poseidon2 "
            "native hashes, FRI and the recursive-verifier gadget. The adversary is a structured search (statement-level attacks, "
            "per-generator hint overrides), not exhaustive; 'held' means held on the assignments generated.")

# id -> (level category, technique, level text, level note, design ref)
CHECKS = {
 "C01": ("exploration", "runtime oracle: constraint-system evaluation of adversarial witnesses vs reference model",
         "Adversarial full-wire assignments (out-of-range / wrapped amounts, fee above cap, inequality off by d, hint overrides on every generator) are evaluated against every gate constraint of the leaf circuit built from /repo; any accepted assignment whose read-back statement violates the range/fee clauses of an independent leaf model is confirmed with the real prover+verifier and reported.",
         CSO_NOTE, "§5 C01"),
 "C02": ("exploration", "runtime oracle: constraint-system evaluation of adversarial witnesses vs reference model",
         "Split-site attacks (different secret / count / account at the two sub-circuit sites), free or malformed nullifiers, wrong address derivations and hint overrides are judged by evaluating the leaf circuit's constraints; accepted non-dummy statements whose nullifier is not H(H(salt,s,c)) for the deposit's secret/count are violations.",
         CSO_NOTE, "§5 C02"),
 "C03": ("exploration", "runtime oracle: constraint-system evaluation of adversarial witnesses vs reference model",
         "Header/tree attacks (free block hash, field swapped after hashing, other field orders, root split three ways, out-of-range positions at active/inactive levels, depth above 16, corrupted siblings) are judged on the real leaf circuit; the model accepts only statements whose header hashes to the block hash in the stated order and whose tree root is reached by a <=16-level position-insert fold.",
         CSO_NOTE, "§5 C03"),
 "C04": ("exploration", "runtime oracle: constraint-system evaluation of adversarial witnesses vs reference model",
         "All 8 sentinel combinations x each binding broken, single non-zero block-hash limbs / outputs, prover-pinned dummy flag (0,1,2,p-1) and hint overrides over the equality/AND chain; range and fee families replayed on dummy statements.",
         CSO_NOTE, "§5 C04"),
 "C06": ("exploration", "runtime oracle: wrapper circuit outputs vs executable reference model",
         "Vectors of leaf statements (exhaustive small domain for N=1, strided pairs for N=2, random with forced collisions for N up to 8/16) are pinned on the free child-PI targets of the private-batch wrapper built by the repository's own constraint builder; every accepted vector's 21N+8 output felts are compared with a model written from the property; sampled vectors go through the shipped recursive circuit over a fake leaf and over the real leaf and must agree.",
         CSO_NOTE + " Wrapper-only instantiation uses hook H1 with zero_knowledge=false (blinding rows only).", "§5 C06"),
 "C07": ("exploration", "runtime oracle: wrapper circuit acceptance vs executable reference model",
         "accepted <=> (one asset, one block hash and fee over real slots, distinct real nullifiers, group sums < 2^32) on every generated vector, plus permutation- and dummy-content-invariance of acceptance; disagreements are confirmed with the real prover/verifier of the wrapper-only circuit.",
         CSO_NOTE, "§5 C07"),
 "C08": ("exploration", "runtime oracle: conservation invariant on wrapper circuit outputs",
         "Metamorphic oracle directly on the circuit's output felts of every accepted vector: total and per-account sums equal what real slots paid; dummy slots with arbitrary amounts/accounts contribute nothing.",
         CSO_NOTE, "§5 C08"),
 "C09": ("exploration", "runtime oracle: permutation / dummy-replacement metamorphic checks on wrapper outputs",
         "For accepted vectors: all N! slot permutations (N<=4; sampled beyond) leave header and nullifier region unchanged and only reorder exit groups by slot order; replacing any dummy slot's contents leaves the whole output unchanged; duplicate/dummy output slots are all-zero.",
         CSO_NOTE + " A dummy position may carry the zero-account group sum when a real slot pays the zero account (that is what C06's grouping prescribes); recorded, not a violation.", "§5 C09"),
 "C12": ("exploration", "runtime oracle: wrapper circuit outputs vs executable reference model",
         "Vectors of attainable private-batch statements (+ hostile dummy inners) pinned on the free child-PI targets of the public-batch wrapper; every accepted output compared felt-by-felt with the order-preserving-forwarding model; sampled vectors through the shipped recursive circuit over a fake inner.",
         CSO_NOTE, "§5 C12"),
 "C13": ("exploration", "runtime oracle: wrapper circuit acceptance vs executable reference model",
         "accepted <=> real inners share (block hash, asset, fee) for all dummy patterns (2^M, M<=4) with a conflict at every real pair and field; acceptance invariant under changes of slots, nullifiers, block numbers and every field of dummy inners.",
         CSO_NOTE, "§5 C13"),
 "C36": ("exploration", "runtime oracle: end-to-end conservation over chained wrapper circuits and real recursive proofs",
         "Random compatible leaf sets are split into padded private batches, pushed through the private then the public wrapper circuit; the final output must conserve value per account and carry exactly the real nullifiers plus the real batches' dummy replacements; a sample runs through real leaf proofs and both recursive circuits.",
         CSO_NOTE, "§5 C36"),
}

PURE_NOTE = ("Trusted base: the harness's own reference models (written from the property text), Rust's catch_unwind, and the per-thread allocation counter of the harness allocator. "
             "Inputs are boundary-structured plus seeded random; 'held' means held on the inputs generated.")
CHECKS.update({
 "C24": ("exploration", "runtime reference-model monitor over the real parsers (differential + panic/Ok/Err oracle)",
         "Valid serialisations, single-/multi-field corruptions, lengths around every layout boundary, header constants +-1, non-canonical limbs and huge counts are fed to the leaf, private-batch and public-batch parsers under catch_unwind; Ok/Err and the parsed value are compared with a layout model, and the felt-based and u64-based parsers are compared with each other on every vector; all lengths 0..8+21*66 are swept.",
         PURE_NOTE, "§5 C24"),
 "C25": ("exploration", "runtime reference-model monitor over encoders/decoders (round trip, injectivity, acceptance)",
         "All strings over three 2-symbol alphabets up to length 10/13 (round trip + pairwise injectivity, exhaustive), structured x vs x||suffix pairs, random strings up to cap and cap+1, malformed felt vectors through the decoder against a reference decoder, digests with limbs around p, limb decoding around 2^32, u128 quantisation around the u32 boundary.",
         PURE_NOTE, "§5 C25"),
 "C26": ("exploration", "runtime reference-model monitor over the compact hash (hook H6) and node hashing",
         "Every length 0..1024/4096 and lengths around 1 MiB with canonical and non-canonical limbs: acceptance == (len<=1MiB, len%8==0, limbs<p); accepted inputs re-hashed from an independent injective limb map; node hashing on random quadruples: error not panic for non-canonical children, all 24 orders equal, equals presorted hashing.",
         PURE_NOTE + " Hash collisions are out of scope.", "§5 C26"),
 "C28": ("exploration", "runtime reference-model monitor over the config policy, constructors and CLI flags",
         "Single-knob sweeps, the full pairwise product over every threshold and neighbour, and random multi-knob configs are compared with an independent policy model; failing configs are fed to all six circuit/prover constructors under catch_unwind with an allocation counter; memprof CLI flag sets (config.rs compiled in via #[path]) must only pass validate() when the built config passes the policy.",
         PURE_NOTE, "§5 C28"),
 "C29": ("exploration", "runtime monitor: Err/no-panic/no-allocation/no-file oracle at every count-taking entry point",
         "Counts {0,65,66,1024,2^32,2^63,usize::MAX} at 23 entry points (config type and file loader incl. legacy key, parsers, circuit and prover constructors, byte/dir loaders, recursive-verifier helper, pool, three artifact builders, aggregator init) under catch_unwind with overflow-checks on, an allocation counter and a scratch directory watch; try_pi_len against u128 arithmetic; config.json round trips.",
         PURE_NOTE, "§5 C29"),
 "C35": ("exploration", "runtime monitor over the transfer-proof JSON parser (caps, panic, allocation, validate-consistency)",
         "Documents at cap-1/cap/cap+1 of each field cap and of the 8 MiB raw cap (whitespace- and escape-inflated), extra/duplicate/missing fields, nesting to 10^5, truncations and byte flips; oracle: no panic, over-8MiB => Err with < 64 KiB allocated, accepted => validate() ok and every cap respected, expected acceptance at each boundary.",
         PURE_NOTE, "§5 C35"),
})

CHECKS.update({
 "C05": ("exploration", "runtime monitor over the real leaf prover / pinned verifier with a reference model of the public-input layout",
         "Honest inputs of every depth 0..16 (real and dummy, boundary amounts and fees) are driven through WormholeProver::new/commit/prove and the keccak-pinned WormholeVerifier loaded from a fresh rebuild; the 21 public inputs are compared with the model's layout and parsed back by both parsers; malformed paths (depth 17..20, length mismatches, positions 4..255, 65536 positions) must give Err, never a panic or a proof.",
         "Trusted base: plonky2 prover/verifier; expected statement values come from the independent leaf model.", "§5 C05"),
 "C27": ("exploration", "runtime differential monitor: native Merkle verifier vs fold model vs leaf circuit (CSO)",
         "Valid paths of depth 0..17 and every single corruption (leaf, sibling, position to any byte, root, lengths, non-canonical limbs, reordered siblings) are judged by verify_with_positions and by an independent fold model; from_unsorted must build verifying proofs with positions = sorted rank; the same paths inside otherwise-valid statements are judged by the real leaf circuit and must agree with the native verifier.",
         CSO_NOTE, "§5 C27"),
 "C32": ("exploration", "runtime string monitor over Debug renderings",
         "For random and patterned private witnesses, {:?} and {:#?} of nine types (incl. a committed prover) are searched for decimal / hex / byte-list renderings of the secret, deposit account, transfer count, input amount, digest logs, siblings and positions (whole-token match for integers, whitespace-free substring match for byte strings >= 8 bytes).",
         "Trusted base: the harness's rendering list (LE/BE, limbs, halves, hex with/without 0x, byte lists). A format not in the list (e.g. base64) would be missed.", "§5 C32"),
 "C33": ("exploration", "runtime heap monitor: allocator-level scan of every freed / reallocated block for the live secret",
         "Random call sequences over the whole secret-handling API run on threads whose allocator scans each block at dealloc and at (emulated moving) realloc for the secret's limbs; fresh blocks are zeroed and freed blocks wiped during a scan so residue cannot travel between blocks; only the two documented upstream pad10_to_rate buffers are exempt (exact whole-block match); Secret::new must zero the caller's buffer for valid and invalid values.",
         "Trusted base: the harness allocator. Stack copies and plonky2-owned witness memory are outside the property's scope.", "§5 C33"),
 "C10": ("exploration", "runtime oracle: hint-override adversary over wrapper and gadget circuits (CSO)",
         "For fixed child public inputs every generator output of the private (N<=3/4) and public (M<=2/3) wrapper-only circuits and of the comparison / sorting gadget circuits is overridden (generic values, equality-hint flips, (lo,hi) p-aliases, limb carries, sampled pairs); every accepted effective override must leave all public inputs unchanged and no override may rescue a batch whose honest witness fails.",
         CSO_NOTE, "§5 C10"),
 "C30": ("exploration", "runtime oracle: gadget circuits vs integer comparison model, exhaustive for small widths, with hint overrides",
         "is_const_less_than / enforce_target_less_than_const circuits for widths 1..6/8 with ALL constants and ALL values 0..2^w+3, and widths {16,31,32,33,48,62,63,64} with boundary constants/values; satisfiable <=> value < 2^w and output == (c < value); every generator is hint-overridden including the p-alias decomposition at width 64.",
         CSO_NOTE, "§5 C30"),
 "C31": ("exploration", "runtime oracle: sorting gadget circuit vs sort model, exhaustive small domain, with hint overrides",
         "sort_digests4 circuits for n=1..3 over limbs {0,1,2^32-1,2^32,p-1} in the two most / least significant positions (exhaustive for n<=2, strided for n=3 in quick) and random lists with duplicates and near-duplicates up to n=8/64; output == ascending lexicographic sort; comparator flags, half splits and equality hints overridden.",
         CSO_NOTE, "§5 C31"),
})

POOL_NOTE = ("Trusted base: the harness's sequential pool model (written from the property text), plonky2's verifier for the 'verifies' ground truth of catalogue proofs, the interposed CLOCK_MONOTONIC. "
             "Histories are seeded random over small limits; 'held' means held on the histories generated.")
POOL_TEXT = ("Histories of 40..200 operations (push of valid/tampered/wrong-length/dummy-key/duplicate-nullifier/new-bucket proofs, evict_settled, evict_older_than, snapshot_batch, remove_bucket, clock advances onto exact window/age boundaries, bucket_stats) run on the real ProofPool under an exact virtual clock; "
             "after every operation the internal state (hook H5), the return value, the per-thread verification counter and bucket_stats are compared with a sequential reference model. ")
CHECKS.update({
 "C19": ("exploration", "runtime history monitor: real pool vs sequential reference model (admission rules and their order)", POOL_TEXT + "C19 reports: admitted/rejected mismatches, rule order observed through the verification counter (full/shape/dummy/budget cost 0, invalid/bucket-limit/duplicate cost exactly 1), any state change after a rejected push.", POOL_NOTE, "§5 C19"),
 "C20": ("exploration", "runtime history monitor: structural invariants on hooked pool state after every operation", POOL_TEXT + "C20 reports: index != nullifiers of pooled proofs, shared nullifiers, empty buckets, proof in a foreign bucket, limits exceeded, len/num_buckets/bucket_stats (count, saturating volume, oldest age, snapshot age) differing from the pooled contents.", POOL_NOTE, "§5 C20"),
 "C21": ("exploration", "runtime history monitor: removal paths and snapshots vs reference model", POOL_TEXT + "C21 reports: eviction counts/sets differing from the model, proofs disappearing on non-removal operations, snapshots that are not the oldest min(count,batch) clones in admission order or that remove something, snapshots rejected by the public-batch preflight (hook H4).", POOL_NOTE, "§5 C21"),
 "C22": ("exploration", "runtime history monitor: verification-call counter vs budget model under an exact virtual clock", POOL_TEXT + "C22 reports: more than one verification per push, verification after budget exhaustion, more than max_verifies calls inside one window, window restarts at the wrong instant (boundary advances of window-1ns / window / window+1ns), verifies_in_window differing from the model.", POOL_NOTE, "§5 C22"),
})

ENGINES = [
 {"name": "cso", "path": "harness/src/cso.rs", "serves_properties": ["C01","C02","C03","C04","C06","C07","C08","C09","C10","C11","C12","C13","C27","C30","C31","C36"],
  "kind_free_text": "constraint-satisfaction oracle: lenient witness generation + evaluation of every gate constraint with plonky2's own evaluators + confirmation by the real prover/verifier"},
 {"name": "leaf-model", "path": "harness/src/leaf.rs", "serves_properties": ["C01","C02","C03","C04","C05","C27"], "kind_free_text": "independent executable model of the leaf relation"},
 {"name": "pure-models", "path": "harness/src/pure.rs, harness/src/policy.rs", "serves_properties": ["C24","C25","C26","C28","C29","C35"], "kind_free_text": "reference models + catch_unwind + allocation counter over pure functions and entry points"},
 {"name": "pool-model + vclock", "path": "harness/src/poolcheck.rs, harness/src/vclock.rs", "serves_properties": ["C19","C20","C21","C22"], "kind_free_text": "sequential reference model of the pool; clock_gettime interposition giving an exact thread-local virtual monotonic clock"},
 {"name": "leanref", "path": "harness/src/leanref.rs, lean/Drv.lean", "serves_properties": ["C34"], "kind_free_text": "Lean driver evaluating the specification's executable definitions on exported cases"},
 {"name": "faults", "path": "harness/src/faults.rs", "serves_properties": ["C23"], "kind_free_text": "closure-level fault/crash injection through hook H7 and strace syscall injection into a child generator process"},
 {"name": "hints", "path": "harness/src/hints.rs", "serves_properties": ["C01","C02","C03","C04","C10","C30","C31"], "kind_free_text": "hint-override adversary: per-generator and pairwise overrides with semantic families"},
 {"name": "heapmon", "path": "harness/src/heapmon.rs", "serves_properties": ["C17","C25","C26","C28","C29","C33","C35"], "kind_free_text": "global-allocator wrapper: per-thread byte counter and secret scanner at dealloc/realloc"},
 {"name": "wrapper-models", "path": "harness/src/wrap.rs", "serves_properties": ["C06","C07","C08","C09","C12","C13","C36","C34"], "kind_free_text": "independent executable models of both aggregation wrappers; wrapper-only / full recursive circuit forms"},
]

REAL_NOTE = ("Trusted base: plonky2 prover/verifier, the harness's wrapper models; child circuits are fake free-PI circuits where the constructors allow any child, real circuits where loaders are canonical-pinned. "
             "'held' means held on the vectors / artifacts generated.")
CHECKS.update({
 "C14": ("exploration", "runtime monitor over the real provers' commit/prove with model + constraint-oracle adjudication of rejections",
         "Vectors of valid / tampered child proofs (lengths 0..N+1, every metadata mix, duplicate nullifiers, caller-supplied dummies, grouped exit sums around 2^32, padding with non-zero asset) are fed to PrivateBatchProver::commit and PublicBatchProver::commit; every Ok is proved and verified; every Err with all documented policies satisfied must be unprovable according to the wrapper model AND the constraint oracle on the wrapper circuit; policy violations must be Err.",
         REAL_NOTE, "§5 C14, §7 D1"),
 "C15": ("exploration", "runtime statistical monitor over committed witnesses (hook H3/H4 read access + re-arm)",
         "One prover per (N,k) commits the same k distinguishable proofs thousands of times (re-armed through the hook); the committed partial witness is read back: multiset = supplied + (N-k) validated templates (proof body checked, not only public inputs), arrangement counts chi-square-uniform at alpha=1e-9 with every arrangement seen and no position bias, preimages never repeat and have uniform top bytes; the public prover keeps the supplied order followed by templates.",
         REAL_NOTE + " Uniformity is a statistical statement at the stated run sizes.", "§5 C15"),
 "C16": ("exploration", "runtime monitor over every template-accepting entry point (constructors, loaders, build step, aggregator init)",
         "Templates deviating from the sentinel in every public-input position (singly, pairs), non-verifying templates, and real-circuit templates (dummy with asset 7 / non-zero exit limbs, real proofs, real block hash with zero outputs, corrupted bytes) at PrivateBatchProver::{new,new_from_bytes,new_from_files,new_from_binaries_dir}, generate_private_batch_circuit_binaries (nothing may be published), PublicBatchProver::{new,new_from_bytes,new_from_binaries_dir} and PublicBatchAggregator::with_limits; the canonical templates must be accepted.",
         REAL_NOTE, "§5 C16"),
 "C17": ("exploration", "runtime monitor over artifact loaders (exhaustive bit flips of the leaf artifacts, sampled mutations elsewhere, sparse oversized files, inotify on planted prover artifacts)",
         "Every single-bit flip of verifier.bin (and every 5th / every bit of common.bin) through the keccak-pinned loader; sampled flips, truncations, extensions, empty and other-shape artifacts through eight further loaders / build steps incl. the semantic public-batch pin; oversized sparse files and slices must be rejected without being opened/read (inotify) and with < 1 MiB allocated; planted prover artifacts in a bins directory are never opened while every directory loader runs.",
         REAL_NOTE, "§5 C17"),
 "C18": ("exploration", "runtime monitor over the real aggregation pipeline (real leaf proofs -> private batch -> pool -> public batch)",
         "Aggregators for several addresses (incl. all-zero and all p-1 limbs) over artifacts from generate_all_circuit_binaries aggregate real private-batch proofs; the returned proof must verify under a canonical rebuild of the public-batch verifier and expose the configured address; every other aggregator must reject it; tampered public inputs and proofs with +-1..8 public inputs must be rejected without panic.",
         REAL_NOTE, "§5 C18"),
})

CHECKS.update({
 "C23": ("fault_enumeration", "fault injection: exhaustive closure-level rename faults/crashes (hook H7) + strace syscall error/SIGKILL injection into the real generator process, with a directory-tree oracle",
         "Every combination of {ok, error, error-because-another-process-re-created-the-output-path, crash-before, crash-after} on the three renames of the publish/rollback sequence from every initial state {absent, file, previous directory} is executed through the injectable publish routine (the whole space: 375 plans); the real generate_all_circuit_binaries runs in a child process under strace: every file-system call of the publishing thread in a fault-free reference trace (mkdir, openat, write to an artifact, unlink, rename; identified by syscall name and per-name ordinal, which is how strace counts) returns EIO (thorough: also ENOSPC, EACCES) or the process is SIGKILLed at its entry, each injected run is traced and counts only if its own trace shows the injected call; after every run each file is compared byte-wise with the previous and the new set, and a partial staging directory left by a single-fault failure is a violation.",
         "Trusted base: the harness's tree oracle; a panic in the injected closure stands for process death (no drop guards on that path); strace needs ptrace - when unavailable the syscall sub-check is skipped and recorded, the closure space still decides.", "§5 C23"),
})

CHECKS.update({
 "C11": ("exploration", "runtime oracle over 'programs': foreign child circuits with valid proofs written into the real outer circuits, judged by the constraint oracle and the real prover/verifier, plus a free-input (verifier-key) audit",
         "Alternative child circuits are assembled from the repository's public circuit fragments (one copy constraint / constant gate added, nullifier or root binding removed: same CommonCircuitData, different key; ZK config; unconstrained 21-PI circuit) and proved; each proof is written into the proof targets of PrivateBatchCircuit over the canonical leaf (one, two and three child slots: the foreign proof at every slot position in turn, genuine canonical real / dummy-sentinel proofs elsewhere) and, one layer up, of PublicBatchCircuit over the canonical private batch (one and two inner slots); the outer constraint system must be unsatisfied while the all-canonical controls are satisfied; an audit searches the outer circuit for prover-controlled inputs and, if a verifier key's worth appears, writes the foreign key there; constructors must return Err (no panic) for children with other public-input counts.",
         CSO_NOTE, "§5 C11"),
 "C34": ("other", "differential runtime monitor: circuit outputs vs the Lean specification's own executable definitions evaluated by lean",
         "Accepted private-batch vectors (N in 1..8) judged by the wrapper circuit are handed to a Lean driver importing /repo/formal's WormholeSpec; groupExits (maskedChildPairs leaves), leaves.find? isRealB and digestLt on the circuit's nullifier region are evaluated from the spec's own definitions and compared with the circuit's output felts. `lake build` of the package runs first (it is what makes the definitions executable); a failing build or a `sorry` is reported.",
         "The first sentence of C34 (theorems are proven) is a proof-checker verdict, not a runtime observation: it is reported from the build step and recorded under assumptions; the claim of this check is the spec-vs-circuit differential. Trusted base: lean/lake 4.33, plonky2 evaluators.", "§5 C34, §8"),
})

def head(repo):
    return subprocess.check_output(["git", "-C", repo, "log", "--format=%h %s", "--grep=^verif-hooks", "--reverse"], text=True).strip().splitlines()

hook_commits = [l.split()[0] for l in head("/repo")]

checks = []
for p in props:
    pid = p["id"]
    if pid not in CHECKS:
        continue
    cat, tech, text, note, ref = CHECKS[pid]
    checks.append({
        "property_id": pid,
        "quick_cmd": f"bin/check {pid} quick",
        "thorough_cmd": f"bin/check {pid} thorough",
        "evidence_file": f"/verif/evidence/{pid}.json",
        "replay_cmd_template": "cat {path}",
        "engine": "vf (harness/src/bin/vf.rs)",
        "level_claimed": {"category": cat, "text": text, "design_ref": ref},
        "level_note": note,
        "technique": tech,
    })

NA_REASONS = {}
not_applicable = [{"property_id": p["id"], "reason": NA_REASONS.get(p["id"], "check not built yet (work in progress; see DESIGN.md §5 for the planned monitor)")}
                  for p in props if p["id"] not in CHECKS]

manifest = {
    "version": 1,
    "setup_cmd": "cd harness && CARGO_NET_OFFLINE=true cargo build --release --offline",
    "hooks": {
        "guard": "cargo feature `verif-hooks` (crates qp-zk-circuits-common, qp-wormhole-aggregator, qp-wormhole-circuit-builder); off by default",
        "enable": "the harness crate (/verif/harness/Cargo.toml) path-depends on /repo's crates with features=[\"verif-hooks\"], so bin/check's `cargo build` compiles /repo's working tree with hooks on",
        "baseline_off_cmd": "cd /repo && cargo nextest run --workspace --no-fail-fast --test-threads 8 --offline",
        "source_commits": hook_commits,
        "add_only": True,
    },
    "engines": ENGINES,
    "checks": checks,
    "not_applicable": not_applicable,
    "notes": "Exit codes of every check: 0 = held on everything explored, 1 = VIOLATION line printed, 2 = inconclusive (harness could not build/run; never a violation). VERIF_SEED and VERIF_TIER are honoured.",
}
json.dump(manifest, open(os.path.join(ROOT, "MANIFEST.json"), "w"), indent=1)
print("checks:", len(checks), "not_applicable:", len(not_applicable))
