//! E5: global allocator wrapper.
//!  (a) per-thread byte counter (C17/C28/C29/C35 "rejected before allocating"),
//!  (b) per-thread secret scanner at dealloc / moving realloc (C33).
//! No address bookkeeping is kept, so nothing can hide a leak.

use std::alloc::{GlobalAlloc, Layout, System};
use std::cell::{Cell, RefCell};

pub struct Mon;

#[derive(Clone, Debug)]
pub struct Finding {
    pub size: usize,
    pub limbs_found: usize,
    pub contiguous32: bool,
    pub via_realloc: bool,
    pub block: Vec<u8>,
    pub backtrace: String,
}

thread_local! {
    static ALLOCATED: Cell<u64> = const { Cell::new(0) };
    static SCAN_ACTIVE: Cell<bool> = const { Cell::new(false) };
    static IN_HOOK: Cell<bool> = const { Cell::new(false) };
    static PATTERN: Cell<[u64; 4]> = const { Cell::new([0; 4]) };
    static FINDINGS: RefCell<Vec<Finding>> = const { RefCell::new(Vec::new()) };
    static BLOCKS_SCANNED: Cell<u64> = const { Cell::new(0) };
}

pub fn thread_allocated() -> u64 {
    ALLOCATED.with(|a| a.get())
}

pub fn start_scan(secret_limbs: [u64; 4]) {
    PATTERN.with(|p| p.set(secret_limbs));
    FINDINGS.with(|f| f.borrow_mut().clear());
    BLOCKS_SCANNED.with(|b| b.set(0));
    SCAN_ACTIVE.with(|s| s.set(true));
}

pub fn stop_scan() -> (Vec<Finding>, u64) {
    SCAN_ACTIVE.with(|s| s.set(false));
    let f = FINDINGS.with(|f| std::mem::take(&mut *f.borrow_mut()));
    (f, BLOCKS_SCANNED.with(|b| b.get()))
}

unsafe fn scan(ptr: *mut u8, size: usize, via_realloc: bool) {
    let active = SCAN_ACTIVE.try_with(|s| s.get()).unwrap_or(false);
    if !active || size < 8 {
        return;
    }
    if IN_HOOK.try_with(|h| h.replace(true)).unwrap_or(true) {
        return;
    }
    let _ = BLOCKS_SCANNED.try_with(|b| b.set(b.get() + 1));
    let block = core::slice::from_raw_parts(ptr, size);
    let pat = PATTERN.with(|p| p.get());
    let mut limbs_found = 0usize;
    for limb in pat.iter() {
        let needle = limb.to_le_bytes();
        if block.windows(8).any(|w| w == needle) {
            limbs_found += 1;
        }
    }
    if limbs_found > 0 {
        let mut full = [0u8; 32];
        for (i, l) in pat.iter().enumerate() {
            full[i * 8..i * 8 + 8].copy_from_slice(&l.to_le_bytes());
        }
        let contiguous32 = size >= 32 && block.windows(32).any(|w| w == full);
        let bt = std::backtrace::Backtrace::force_capture().to_string();
        let keep: String = bt
            .lines()
            .filter(|l| l.contains("::") && !l.contains("heapmon") && !l.contains("backtrace"))
            .take(14)
            .map(|l| l.trim().to_string())
            .collect::<Vec<_>>()
            .join(" <- ");
        let finding = Finding {
            size,
            limbs_found,
            contiguous32,
            via_realloc,
            block: block[..size.min(256)].to_vec(),
            backtrace: keep,
        };
        let _ = FINDINGS.try_with(|f| {
            if let Ok(mut v) = f.try_borrow_mut() {
                if v.len() < 64 {
                    v.push(finding);
                }
            }
        });
    }
    let _ = IN_HOOK.try_with(|h| h.set(false));
}

unsafe impl GlobalAlloc for Mon {
    unsafe fn alloc(&self, layout: Layout) -> *mut u8 {
        let _ = ALLOCATED.try_with(|a| a.set(a.get() + layout.size() as u64));
        // during a scan fresh blocks are handed out zeroed, so stale residue of earlier frees can never
        // be mistaken for data the monitored code wrote
        if SCAN_ACTIVE.try_with(|s| s.get()).unwrap_or(false) {
            return System.alloc_zeroed(layout);
        }
        System.alloc(layout)
    }
    unsafe fn alloc_zeroed(&self, layout: Layout) -> *mut u8 {
        let _ = ALLOCATED.try_with(|a| a.set(a.get() + layout.size() as u64));
        System.alloc_zeroed(layout)
    }
    unsafe fn dealloc(&self, ptr: *mut u8, layout: Layout) {
        scan(ptr, layout.size(), false);
        // while a scan is active, wipe every block after it has been inspected so that residue of one
        // freed block (e.g. the exempt upstream pad buffers) cannot resurface inside a later allocation
        if SCAN_ACTIVE.try_with(|s| s.get()).unwrap_or(false) {
            core::ptr::write_bytes(ptr, 0, layout.size());
        }
        System.dealloc(ptr, layout)
    }
    unsafe fn realloc(&self, ptr: *mut u8, layout: Layout, new_size: usize) -> *mut u8 {
        let _ = ALLOCATED.try_with(|a| a.set(a.get() + new_size.saturating_sub(layout.size()) as u64));
        let active = SCAN_ACTIVE.try_with(|s| s.get()).unwrap_or(false);
        if active {
            // emulate a moving realloc so the old block can be inspected while still valid
            let new_layout = Layout::from_size_align_unchecked(new_size, layout.align());
            let new_ptr = System.alloc_zeroed(new_layout);
            if !new_ptr.is_null() {
                core::ptr::copy_nonoverlapping(ptr, new_ptr, layout.size().min(new_size));
                scan(ptr, layout.size(), true);
                core::ptr::write_bytes(ptr, 0, layout.size());
                System.dealloc(ptr, layout);
            }
            return new_ptr;
        }
        System.realloc(ptr, layout, new_size)
    }
}
