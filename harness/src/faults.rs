//! C23: atomic publication under failures and crashes.
//!  (a) closure-level injection through hook H7: every combination of {ok, Err, Err-with-the-output-path-re-created-by-another-process, panic-before, panic-after}
//!      on the (at most three) renames of the publish/rollback sequence, from every initial state — exhaustive;
//!  (b) syscall-level injection with strace into a child process running the UNHOOKED
//!      generate_all_circuit_binaries: every file-system call of the publishing thread (by syscall name and
//!      per-name ordinal, which is how strace's `when=` counts) returns an error, or the process is SIGKILLed at its entry.

use crate::util::{Ctx, Report, Scratch};
use rayon::prelude::*;
use serde_json::json;
use std::cell::Cell;
use std::collections::BTreeMap;
use std::panic::{catch_unwind, AssertUnwindSafe};
use std::path::Path;
use std::process::Command;

type FileSet = BTreeMap<String, Vec<u8>>;

fn read_set(dir: &Path) -> Option<FileSet> {
    if !dir.is_dir() {
        return None;
    }
    let mut m = BTreeMap::new();
    for e in std::fs::read_dir(dir).ok()?.flatten() {
        let p = e.path();
        if p.is_file() {
            m.insert(e.file_name().to_string_lossy().to_string(), std::fs::read(&p).unwrap_or_default());
        } else {
            m.insert(format!("{}/", e.file_name().to_string_lossy()), vec![]);
        }
    }
    Some(m)
}

fn write_set(dir: &Path, set: &FileSet) {
    std::fs::create_dir_all(dir).unwrap();
    for (k, v) in set {
        std::fs::write(dir.join(k), v).unwrap();
    }
}

#[derive(Clone, Copy, Debug, PartialEq, Eq)]
enum Init {
    Absent,
    File,
    OldDir,
}

#[derive(Clone, Copy, Debug, PartialEq, Eq)]
enum Beh {
    Ok,
    Fail,
    /// the rename fails because, just before it, another process re-created the OUTPUT path as a non-empty
    /// directory (a consumer re-creating `bins/` with a lock file): the failure is a real ENOTEMPTY situation
    /// that persists, so a later rollback rename onto the output path fails for real as well
    FailOccupied,
    PanicBefore,
    PanicAfter,
}

#[derive(Debug, PartialEq, Eq, Clone)]
enum At {
    Absent,
    File,
    Old,
    New,
    /// the directory the simulated foreign process created (neither artifact set)
    Foreign,
    Mixed(String),
}

fn classify(path: &Path, old: &FileSet, new: &FileSet) -> At {
    if !path.exists() {
        return At::Absent;
    }
    if path.is_file() {
        return At::File;
    }
    match read_set(path) {
        Some(s) if &s == old => At::Old,
        Some(s) if &s == new => At::New,
        Some(s) if s.len() == 1 && s.get("consumer.lock").map(|v| v.as_slice()) == Some(b"foreign".as_slice()) => At::Foreign,
        Some(s) => At::Mixed(format!("{:?}", s.keys().collect::<Vec<_>>())),
        None => At::Absent,
    }
}

fn closure_space(ctx: &Ctx, rep: &Report) {
    let old: FileSet = [("common.bin".to_string(), b"OLD-common".to_vec()), ("verifier.bin".to_string(), b"OLD-verifier".to_vec()), ("stale_only_in_old.bin".to_string(), b"x".to_vec())].into_iter().collect();
    let new: FileSet = [("common.bin".to_string(), b"NEW-common".to_vec()), ("verifier.bin".to_string(), b"NEW-verifier".to_vec()), ("config.json".to_string(), b"{}".to_vec())].into_iter().collect();
    let behs = [Beh::Ok, Beh::Fail, Beh::FailOccupied, Beh::PanicBefore, Beh::PanicAfter];
    let mut cases: Vec<(Init, [Beh; 3])> = vec![];
    for init in [Init::Absent, Init::File, Init::OldDir] {
        for a in behs {
            for b in behs {
                for c in behs {
                    cases.push((init, [a, b, c]));
                }
            }
        }
    }
    rep.set_extra("closure_space", json!({"initial_states": 3, "behaviours_per_rename": 5, "renames": 3, "cases": cases.len(), "exhaustive": true}));
    let scratch = Scratch::new("c23a");
    cases.par_iter().enumerate().for_each(|(ci, (init, plan))| {
        let _ = ctx;
        let root = scratch.path().join(format!("case{ci}"));
        std::fs::create_dir_all(&root).unwrap();
        let output = root.join("bins");
        match init {
            Init::Absent => {}
            Init::File => std::fs::write(&output, b"i am a file").unwrap(),
            Init::OldDir => write_set(&output, &old),
        }
        let staging = match wormhole_circuit_builder::verif_create_staging_dir(&output) {
            Ok(s) => s,
            Err(e) => {
                rep.inconclusive(&format!("hook H7: create_staging_dir failed: {e}"));
                return;
            }
        };
        write_set(&staging, &new);
        let mut old_name = staging.file_name().unwrap().to_os_string();
        old_name.push(".old");
        let old_path = staging.with_file_name(old_name);
        let step = Cell::new(0usize);
        let crashed = Cell::new(false);
        let renames_done: Cell<usize> = Cell::new(0);
        let occupied = Cell::new(false);
        let res = catch_unwind(AssertUnwindSafe(|| {
            wormhole_circuit_builder::verif_commit_staging_dir_impl(&staging, &output, |src, dst| {
                let k = step.get();
                step.set(k + 1);
                let b = if k < 3 { plan[k] } else { Beh::Ok };
                match b {
                    Beh::Ok => {
                        renames_done.set(renames_done.get() + 1);
                        std::fs::rename(src, dst)
                    }
                    Beh::Fail => Err(std::io::Error::new(std::io::ErrorKind::Other, "injected rename failure")),
                    Beh::FailOccupied => {
                        if dst == output.as_path() && !dst.exists() {
                            std::fs::create_dir_all(dst).unwrap();
                            std::fs::write(dst.join("consumer.lock"), b"foreign").unwrap();
                            occupied.set(true);
                        }
                        Err(std::io::Error::new(std::io::ErrorKind::Other, "injected rename failure (destination re-created by another process: directory not empty)"))
                    }
                    Beh::PanicBefore => {
                        crashed.set(true);
                        panic!("injected crash before rename {k}");
                    }
                    Beh::PanicAfter => {
                        let r = std::fs::rename(src, dst);
                        renames_done.set(renames_done.get() + 1);
                        crashed.set(true);
                        let _ = r;
                        panic!("injected crash after rename {k}");
                    }
                }
            })
        }));
        rep.eval();
        let reached = step.get();
        rep.nontrivial(&(format!("{init:?}"), format!("{:?}", &plan[..reached.min(3)]), reached));
        let at_out = classify(&output, &old, &new);
        let at_old = classify(&old_path, &old, &new);
        let at_stage = classify(&staging, &old, &new);
        let case = json!({"initial": format!("{init:?}"), "plan": format!("{plan:?}"), "renames_attempted": reached, "output_reoccupied_by_foreign_process": occupied.get(), "output": format!("{at_out:?}"), "old_path": format!("{at_old:?}"), "staging": format!("{at_stage:?}"),
            "result": match &res { Ok(Ok(())) => "Ok".to_string(), Ok(Err(e)) => format!("Err({})", e.to_string().chars().take(160).collect::<String>()), Err(_) => "crash".to_string() }});
        let initial_at = match init { Init::Absent => At::Absent, Init::File => At::File, Init::OldDir => At::Old };
        // never a mix, anywhere the artifacts can be
        for (name, at) in [("output", &at_out), ("old_path", &at_old), ("staging", &at_stage)] {
            if let At::Mixed(m) = at {
                rep.violation(&format!("publish / mixed artifact set at {name}"), &format!("{name} holds a mix of old and new artifacts: {m}"), case.clone());
            }
        }
        let both_survive = at_old == At::Old && at_stage == At::New;
        match &res {
            Ok(Ok(())) => {
                if at_out != At::New {
                    rep.violation("publish / success reported but new set not live", "publication returned Ok although the new artifact set is not at the output path", case.clone());
                }
                if at_stage != At::Absent {
                    rep.violation("publish / staging left after success", "a staging directory is left behind after a successful publication", case.clone());
                }
                rep.count("outcome:ok");
            }
            Ok(Err(_)) => {
                rep.count("outcome:reported_failure");
                if at_out == At::New {
                    rep.violation("publish / failure reported but new set live", "publication returned Err although the new artifact set is live at the output path", case.clone());
                }
                let untouched = at_out == initial_at;
                let documented_double_failure = *init == Init::OldDir && (at_out == At::Absent || at_out == At::Foreign) && both_survive;
                // the output path was created by the foreign process, not by the publisher, and there was no previous set to protect
                let foreign_over_nothing = *init == Init::Absent && at_out == At::Foreign && occupied.get();
                if !untouched && !documented_double_failure && !foreign_over_nothing {
                    rep.violation("publish / failed publication changed the output", &format!("after a reported failure the output path holds {at_out:?} (initially {initial_at:?}) and the copies are at old_path={at_old:?}, staging={at_stage:?}"), case.clone());
                }
                // a surviving staging directory is only acceptable when it is the complete new set (documented survivor)
                if at_stage != At::Absent && at_stage != At::New {
                    rep.violation("publish / partial staging left after failure", "a partial staging directory is left behind after a reported failure", case.clone());
                }
                if untouched && at_stage == At::New && *init != Init::Absent {
                    rep.violation("publish / staging left after rollback", "the previous artifacts were kept/restored but the staging directory was not removed", case.clone());
                }
                if *init == Init::OldDir && untouched && at_old != At::Absent {
                    rep.violation("publish / moved-aside copy left after rollback", "the previous artifacts are back at the output path but a second copy remains at the .old path", case.clone());
                }
            }
            Err(_) => {
                rep.count("outcome:crash");
                // process death: output is complete old, complete new, or absent; if old is gone from output, new is there or both survive
                match (&initial_at, &at_out) {
                    (_, At::New) => {}
                    (a, b) if a == b => {}
                    (At::Absent, At::Foreign) if occupied.get() => {}
                    (At::Old, At::Absent) | (At::Old, At::Foreign) => {
                        if !both_survive {
                            rep.violation("publish / crash loses an artifact set", &format!("after a crash the previous set is gone from the output path and the copies are old_path={at_old:?}, staging={at_stage:?}"), case.clone());
                        }
                    }
                    _ => rep.violation("publish / crash leaves an unexpected output state", &format!("after a crash the output path holds {at_out:?} (initially {initial_at:?})"), case.clone()),
                }
            }
        }
        if ci % 61 == 0 {
            rep.sample(case);
        }
    });
}

/// child mode: `vf child-generate <dir>` runs the real, unhooked generate_all_circuit_binaries
pub fn child_generate(dir: &str) -> i32 {
    match wormhole_circuit_builder::generate_all_circuit_binaries(dir, false, 1, None) {
        Ok(()) => 0,
        Err(e) => {
            eprintln!("generation failed: {e:#}");
            3
        }
    }
}

const FS_SYSCALLS: &str = "rename,renameat,renameat2,unlink,unlinkat,rmdir,mkdir,mkdirat,openat,creat,write";

fn strace_available() -> bool {
    Command::new("strace").arg("-V").output().map(|o| o.status.success()).unwrap_or(false)
}

struct ChildOutcome {
    exit: Option<i32>,
    killed: bool,
}

/// runs `vf child-generate <out_dir>` under strace; the trace of FS_SYSCALLS goes to `trace_file`
fn run_child(out_dir: &Path, inject: Option<&str>, trace_file: &Path) -> Option<ChildOutcome> {
    let exe = std::env::current_exe().ok()?;
    let mut cmd = Command::new("strace");
    cmd.arg("-f").arg("-qq").arg("-s").arg("0");
    cmd.arg("-o").arg(trace_file).arg("-e").arg(format!("trace={FS_SYSCALLS}"));
    if let Some(i) = inject {
        cmd.arg("-e").arg(i);
    }
    cmd.arg(exe).arg("child-generate").arg(out_dir);
    cmd.env("RAYON_NUM_THREADS", "2");
    cmd.stdout(std::process::Stdio::null()).stderr(std::process::Stdio::null());
    let st = cmd.status().ok()?;
    use std::os::unix::process::ExitStatusExt;
    Some(ChildOutcome { exit: st.code(), killed: st.signal().is_some() })
}

/// one traced syscall of the publishing thread
#[derive(Clone, Debug)]
struct Sc {
    name: String,
    /// 1-based ordinal among the calls of the same name in the same thread (strace's `when=` counts per syscall and per tracee)
    ord: usize,
    line: String,
}

fn parse_trace(txt: &str) -> Vec<Sc> {
    // the publishing thread is the one that creates the staging directory
    let pid = txt.lines().find(|l| l.contains(".staging-")).and_then(|l| l.split_whitespace().next()).unwrap_or("").to_string();
    let mut ords: BTreeMap<String, usize> = BTreeMap::new();
    let mut v = vec![];
    for l in txt.lines() {
        let mut it = l.splitn(2, char::is_whitespace);
        let (p, rest) = (it.next().unwrap_or(""), it.next().unwrap_or("").trim_start());
        if p != pid || rest.starts_with("<...") || rest.starts_with("+++") || rest.starts_with("---") {
            continue;
        }
        let Some(name) = rest.split('(').next() else { continue };
        if name.is_empty() || !name.chars().all(|c| c.is_ascii_alphanumeric() || c == '_') {
            continue;
        }
        let o = ords.entry(name.to_string()).or_insert(0);
        *o += 1;
        v.push(Sc { name: name.to_string(), ord: *o, line: rest.to_string() });
    }
    v
}

fn syscall_space(ctx: &Ctx, rep: &Report) {
    if !strace_available() {
        rep.note("strace not available: syscall-level injection skipped");
        return;
    }
    let scratch = Scratch::new("c23b");
    let old: FileSet = [("common.bin".to_string(), b"OLD-common".to_vec()), ("keep.me".to_string(), b"previous generation".to_vec())].into_iter().collect();
    let prepare = |output: &Path, init: Init| match init {
        Init::Absent => {}
        Init::File => std::fs::write(output, b"i am a file").unwrap(),
        Init::OldDir => write_set(output, &old),
    };
    let inits: Vec<Init> = ctx.tier.pick(vec![Init::Absent, Init::OldDir], vec![Init::Absent, Init::OldDir, Init::File]);
    // reference run per initial state: the fault-free syscall sequence of the publishing thread and the complete new set
    let mut new_set: Option<FileSet> = None;
    let mut jobs: Vec<(Init, Sc, &str)> = vec![];
    let mut space = vec![];
    for &init in &inits {
        let root = scratch.path().join(format!("ref-{init:?}"));
        std::fs::create_dir_all(&root).unwrap();
        let output = root.join("bins");
        prepare(&output, init);
        let trace = root.join("trace.txt");
        let Some(o) = run_child(&output, None, &trace) else {
            rep.note("strace could not run the child: syscall-level injection skipped");
            return;
        };
        let want_exit_ok = init != Init::File;
        if (o.exit == Some(0)) != want_exit_ok {
            if init == Init::Absent {
                rep.note(&format!("reference child run failed (exit {:?}): syscall-level injection skipped (ptrace may be unavailable)", o.exit));
                return;
            }
            rep.violation("publish / fault-free run reports the wrong result", &format!("fault-free generation from initial state {init:?} exited with {:?}", o.exit), json!({"initial": format!("{init:?}")}));
            continue;
        }
        if init == Init::Absent {
            new_set = read_set(&output);
            if new_set.is_none() {
                rep.inconclusive("reference generation produced no output directory");
                return;
            }
        }
        let scs = parse_trace(&std::fs::read_to_string(&trace).unwrap_or_default());
        if scs.is_empty() {
            rep.inconclusive("no filesystem syscalls observed in the child (trace empty)");
            return;
        }
        let mut picked = 0usize;
        for sc in &scs {
            // writes to the standard streams are not artifact I/O (a failing println! aborts the process by panic: that is the kill case)
            if sc.name == "write" && (sc.line.starts_with("write(1,") || sc.line.starts_with("write(2,") || sc.line.starts_with("write(0,")) {
                continue;
            }
            let touches_artifacts = sc.line.contains("bins");
            if sc.name == "openat" && !touches_artifacts && ctx.tier == crate::util::Tier::Quick {
                continue;
            }
            picked += 1;
            for mode in ["error=EIO", "signal=KILL", "error=ENOSPC", "error=EACCES"] {
                let quick = ctx.tier == crate::util::Tier::Quick;
                if quick && (mode == "error=ENOSPC" || mode == "error=EACCES") {
                    continue;
                }
                // quick: kills only at the directory-level operations (file contents are only ever written inside staging)
                if quick && mode == "signal=KILL" && (sc.name == "write" || sc.name == "openat") && picked % 3 != 0 {
                    continue;
                }
                jobs.push((init, sc.clone(), mode));
            }
        }
        space.push(json!({"initial": format!("{init:?}"), "syscalls_of_publishing_thread": scs.len(), "fault_points": picked,
            "sequence": scs.iter().map(|s| format!("{}#{}", s.name, s.ord)).collect::<Vec<_>>()}));
    }
    let new_set = new_set.unwrap();
    rep.set_extra("syscall_space", json!({"syscalls": FS_SYSCALLS, "per_initial_state": space, "new_set_files": new_set.keys().collect::<Vec<_>>(), "jobs": jobs.len()}));
    let same_new = |s: &FileSet| -> bool {
        // proofs are re-generated per run; compare names, and bytes of the deterministic artifacts
        s.keys().collect::<Vec<_>>() == new_set.keys().collect::<Vec<_>>()
            && s.iter().all(|(k, v)| k == "dummy_proof.bin" || new_set.get(k) == Some(v))
    };
    jobs.par_iter().enumerate().for_each(|(ji, (init, sc, mode))| {
        if ctx.over_budget() {
            return;
        }
        let (init, mode) = (*init, *mode);
        let root = scratch.path().join(format!("job{ji}"));
        std::fs::create_dir_all(&root).unwrap();
        let output = root.join("bins");
        prepare(&output, init);
        let inject = format!("inject={}:{mode}:when={}", sc.name, sc.ord);
        let trace = root.join("trace.txt");
        let Some(o) = run_child(&output, Some(&inject), &trace) else { return };
        rep.eval();
        let ttxt = std::fs::read_to_string(&trace).unwrap_or_default();
        let injected: Vec<&str> = ttxt.lines().filter(|l| l.contains("(INJECTED)")).collect();
        let is_kill = mode.starts_with("signal");
        if !is_kill && injected.is_empty() {
            rep.count("syscall_injection:not_reached");
            return;
        }
        if is_kill && !o.killed {
            rep.count("syscall_injection:not_reached");
            return;
        }
        rep.nontrivial(&(format!("{init:?}"), sc.name.clone(), sc.ord, mode));
        rep.count(&format!("syscall_injection:{}:{}", if is_kill { "kill" } else { "error" }, sc.name));
        let single = injected.len() == 1;
        // which call failed, as observed in this run's own trace
        let failed_call = injected.first().map(|l| l.splitn(2, char::is_whitespace).nth(1).unwrap_or("").trim().to_string()).unwrap_or_default();
        // inspect the tree
        let at_out = if !output.exists() { At::Absent } else if output.is_file() { At::File } else {
            match read_set(&output) { Some(s) if s == old => At::Old, Some(s) if same_new(&s) => At::New, Some(s) => At::Mixed(format!("{:?}", s.keys().collect::<Vec<_>>())), None => At::Absent }
        };
        let mut staging_like: Vec<(String, At)> = vec![];
        for e in std::fs::read_dir(&root).unwrap().flatten() {
            let name = e.file_name().to_string_lossy().to_string();
            if name.starts_with(".bins.staging-") {
                let at = match read_set(&e.path()) { Some(s) if s == old => At::Old, Some(s) if same_new(&s) => At::New, Some(s) => At::Mixed(format!("{:?}", s.keys().collect::<Vec<_>>())), None => At::Absent };
                staging_like.push((name, at));
            }
        }
        let initial_at = match init { Init::Absent => At::Absent, Init::File => At::File, Init::OldDir => At::Old };
        let old_survives = staging_like.iter().any(|(n, a)| n.ends_with(".old") && *a == At::Old);
        let new_survives = staging_like.iter().any(|(n, a)| !n.ends_with(".old") && *a == At::New);
        let case = json!({"initial": format!("{init:?}"), "inject": inject, "reference_call": sc.line, "failed_call": failed_call, "injected_calls": injected.len(), "exit": o.exit, "killed": o.killed,
            "output": format!("{at_out:?}"), "siblings": staging_like.iter().map(|(n, a)| format!("{n}: {a:?}")).collect::<Vec<_>>()});
        if let At::Mixed(m) = &at_out {
            rep.violation("publish / mixed artifact set at output (syscall fault)", &format!("the output path holds a mix of artifacts: {m}"), case.clone());
            return;
        }
        if o.killed {
            rep.count("outcome:killed");
            let ok = at_out == At::New || at_out == initial_at || (initial_at == At::Old && at_out == At::Absent && old_survives && new_survives);
            if !ok {
                rep.violation("publish / kill loses or mixes artifacts", &format!("after SIGKILL at {}#{} the output path holds {at_out:?} (initially {initial_at:?}); old survives: {old_survives}, new survives: {new_survives}", sc.name, sc.ord), case.clone());
            }
        } else if o.exit == Some(0) {
            rep.count("outcome:ok");
            if at_out != At::New {
                rep.violation("publish / success reported but new set not live (syscall fault)", &format!("the generator exited 0 but the output path holds {at_out:?}"), case.clone());
            }
            if staging_like.iter().any(|(n, _)| !n.ends_with(".old")) {
                rep.violation("publish / staging left after success (syscall fault)", "a staging directory is left behind after a successful run", case.clone());
            }
        } else {
            rep.count("outcome:reported_failure");
            let documented_double = initial_at == At::Old && at_out == At::Absent && old_survives && new_survives;
            if at_out == At::New {
                rep.violation("publish / failure reported but new set live (syscall fault)", "the generator reported failure although the new set is live", case.clone());
            } else if at_out != initial_at && !documented_double {
                rep.violation("publish / reported failure changed the output (syscall fault)", &format!("after a reported failure the output path holds {at_out:?} (initially {initial_at:?})"), case.clone());
            }
            // a failed run leaves no staging directory behind, unless it is the documented complete survivor of a failed publish.
            // The single injected fault is what made the run fail, so the clean-up that follows it runs fault-free.
            let stray: Vec<&(String, At)> = staging_like.iter().filter(|(n, a)| !n.ends_with(".old") && *a != At::New).collect();
            // from an initial state in which the fault-free run itself fails (output path is a file), the clean-up of the staging
            // directory is part of the reference sequence: a fault injected INTO that clean-up cannot be expected to be cleaned up
            let hit_reference_cleanup = init == Init::File && (sc.name == "unlink" || sc.name == "unlinkat" || sc.name == "rmdir" || (sc.name == "openat" && sc.line.contains("O_DIRECTORY")));
            if !stray.is_empty() && hit_reference_cleanup {
                rep.count("partial_staging_after_fault_in_the_reference_cleanup(observed, not judged)");
            } else if !stray.is_empty() {
                if single {
                    rep.violation("publish / failed generation leaves a staging directory behind", &format!("after the reported failure caused by `{failed_call}` a partial staging directory is left next to the output: {:?}", stray.iter().map(|(n, a)| format!("{n}: {a:?}")).collect::<Vec<_>>()), case.clone());
                } else {
                    rep.count("partial_staging_after_multiple_injected_faults(observed)");
                }
            }
        }
        if ji % 17 == 0 {
            rep.sample(case);
        }
    });
}

pub fn run_c23(ctx: &Ctx) -> i32 {
    let rule = "fault point = (initial state in {absent, file, previous directory}) x (behaviour of each rename of the publish/rollback sequence in {ok, error, error because another process re-created the output path as a non-empty directory, crash before, crash after}) through the injectable publish routine (hook H7) — the whole space is enumerated; \
        plus (initial state) x (every file-system call — mkdir, openat, write to an artifact, unlink, rename, rmdir — that the publishing thread of the real generator process makes in a fault-free reference run, identified by (syscall, ordinal)) x (returns EIO/ENOSPC/EACCES, or the process is SIGKILLed at its entry) under strace, each run's own trace confirming which call was hit; after every run the directory tree is inspected and every file compared byte-wise with the previous / new set; \
        non-trivial = every executed fault point; distinct by (initial state, fault plan)";
    let rep = Report::new("C23", "fault_enumeration", rule);
    rep.assume("a panic inside the injected rename stands for process death at that point: the publish routine has no drop guards on this path, so no clean-up code runs after the panic");
    rep.assume("'success' = Ok / exit 0; the moved-aside previous copy may survive a successful publication only when its removal itself was the injected fault");
    closure_space(ctx, &rep);
    syscall_space(ctx, &rep);
    rep.set_exhaustive(true);
    rep.finish(ctx, 30)
}
