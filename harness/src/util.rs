//! Shared plumbing: seeds, tiers, verdicts, evidence files, replay files.

use rand::SeedableRng;
use rand_chacha::ChaCha8Rng;
use serde_json::{json, Map, Value};
use std::collections::hash_map::DefaultHasher;
use std::collections::{BTreeMap, HashSet};
use std::hash::{Hash, Hasher};
use std::path::PathBuf;
use std::sync::Mutex;
use std::time::Instant;

pub const VERIF_DIR: &str = "/verif";

#[derive(Clone, Copy, Debug, PartialEq, Eq)]
pub enum Tier {
    Quick,
    Thorough,
}

impl Tier {
    pub fn name(&self) -> &'static str {
        match self {
            Tier::Quick => "quick",
            Tier::Thorough => "thorough",
        }
    }
    /// pick a budget by tier
    pub fn pick<T>(&self, quick: T, thorough: T) -> T {
        match self {
            Tier::Quick => quick,
            Tier::Thorough => thorough,
        }
    }
}

#[derive(Clone, Debug)]
pub struct Ctx {
    pub property: String,
    pub tier: Tier,
    pub seed: u64,
    pub start: Instant,
    /// soft wall-clock cap in seconds: exploration stops generating after it
    pub soft_cap_s: f64,
}

impl Ctx {
    pub fn rng(&self, stream: &str) -> ChaCha8Rng {
        let mut h = DefaultHasher::new();
        self.property.hash(&mut h);
        stream.hash(&mut h);
        let mix = h.finish();
        let mut seed = [0u8; 32];
        seed[..8].copy_from_slice(&self.seed.to_le_bytes());
        seed[8..16].copy_from_slice(&mix.to_le_bytes());
        ChaCha8Rng::from_seed(seed)
    }
    pub fn sub_rng(&self, stream: &str, idx: u64) -> ChaCha8Rng {
        let mut h = DefaultHasher::new();
        self.property.hash(&mut h);
        stream.hash(&mut h);
        let mix = h.finish();
        let mut seed = [0u8; 32];
        seed[..8].copy_from_slice(&self.seed.to_le_bytes());
        seed[8..16].copy_from_slice(&mix.to_le_bytes());
        seed[16..24].copy_from_slice(&idx.to_le_bytes());
        ChaCha8Rng::from_seed(seed)
    }
    pub fn elapsed(&self) -> f64 {
        self.start.elapsed().as_secs_f64()
    }
    pub fn over_budget(&self) -> bool {
        self.elapsed() > self.soft_cap_s
    }
}

/// A violation found by a monitor.
#[derive(Clone, Debug)]
pub struct Violation {
    /// signature used to match known findings (call site + distinguishing input class)
    pub signature: String,
    pub what: String,
    pub replay: Value,
}

/// Thread-safe collector of everything a check observed.
pub struct Report {
    pub property: String,
    pub level: &'static str,
    pub rule: String,
    inner: Mutex<Inner>,
}

struct Inner {
    evaluations: u64,
    distinct: HashSet<u64>,
    samples: Vec<Value>,
    counters: BTreeMap<String, u64>,
    extra: Map<String, Value>,
    violations: Vec<Violation>,
    inconclusive: Vec<String>,
    assumptions: Vec<String>,
    notes: Vec<String>,
    exhaustive: Option<bool>,
}

impl Report {
    pub fn new(property: &str, level: &'static str, rule: &str) -> Self {
        Self {
            property: property.to_string(),
            level,
            rule: rule.to_string(),
            inner: Mutex::new(Inner {
                evaluations: 0,
                distinct: HashSet::new(),
                samples: vec![],
                counters: BTreeMap::new(),
                extra: Map::new(),
                violations: vec![],
                inconclusive: vec![],
                assumptions: vec![],
                notes: vec![],
                exhaustive: None,
            }),
        }
    }
    /// one generated case / execution
    pub fn eval(&self) {
        self.inner.lock().unwrap().evaluations += 1;
    }
    pub fn evals(&self, n: u64) {
        self.inner.lock().unwrap().evaluations += n;
    }
    /// a case that is non-trivial by the rule; fingerprint makes it distinct
    pub fn nontrivial<H: Hash>(&self, fp: &H) {
        let mut h = DefaultHasher::new();
        fp.hash(&mut h);
        self.inner.lock().unwrap().distinct.insert(h.finish());
    }
    pub fn count(&self, key: &str) {
        self.add(key, 1)
    }
    pub fn add(&self, key: &str, n: u64) {
        *self
            .inner
            .lock()
            .unwrap()
            .counters
            .entry(key.to_string())
            .or_insert(0) += n;
    }
    pub fn get(&self, key: &str) -> u64 {
        *self.inner.lock().unwrap().counters.get(key).unwrap_or(&0)
    }
    pub fn sample(&self, v: Value) {
        let mut g = self.inner.lock().unwrap();
        if g.samples.len() < 8 {
            g.samples.push(v);
        }
    }
    /// keep at most `cap` samples under a named family
    pub fn sample_family(&self, family: &str, v: Value, cap: usize) {
        let mut g = self.inner.lock().unwrap();
        let e = g
            .extra
            .entry(format!("samples_{family}"))
            .or_insert_with(|| Value::Array(vec![]));
        if let Value::Array(a) = e {
            if a.len() < cap {
                a.push(v);
            }
        }
    }
    pub fn set_extra(&self, key: &str, v: Value) {
        self.inner.lock().unwrap().extra.insert(key.to_string(), v);
    }
    pub fn violation(&self, signature: &str, what: &str, replay: Value) {
        let mut g = self.inner.lock().unwrap();
        let same = g.violations.iter().filter(|v| v.signature == signature).count();
        if g.violations.len() < 60 && same < 3 {
            g.violations.push(Violation {
                signature: signature.to_string(),
                what: what.to_string(),
                replay,
            });
        }
    }
    pub fn num_violations(&self) -> usize {
        self.inner.lock().unwrap().violations.len()
    }
    pub fn inconclusive(&self, why: &str) {
        let mut g = self.inner.lock().unwrap();
        if g.inconclusive.len() < 20 {
            g.inconclusive.push(why.to_string());
        }
    }
    pub fn assume(&self, a: &str) {
        let mut g = self.inner.lock().unwrap();
        if !g.assumptions.iter().any(|x| x == a) {
            g.assumptions.push(a.to_string());
        }
    }
    pub fn note(&self, a: &str) {
        let mut g = self.inner.lock().unwrap();
        if g.notes.len() < 40 {
            g.notes.push(a.to_string());
        }
    }
    pub fn set_exhaustive(&self, e: bool) {
        self.inner.lock().unwrap().exhaustive = Some(e);
    }
    pub fn distinct(&self) -> usize {
        self.inner.lock().unwrap().distinct.len()
    }
    pub fn evaluations(&self) -> u64 {
        self.inner.lock().unwrap().evaluations
    }

    /// Writes evidence, prints verdict lines, returns process exit code.
    /// `floor`: minimum number of distinct non-trivial cases for a `held` verdict.
    pub fn finish(&self, ctx: &Ctx, floor: usize) -> i32 {
        let g = self.inner.lock().unwrap();
        let known = load_known_findings();
        let mut new_violations: Vec<&Violation> = vec![];
        let mut known_hits: BTreeMap<String, String> = BTreeMap::new();
        for v in &g.violations {
            if let Some(k) = known
                .iter()
                .find(|k| k.property == self.property && k.state == "known" && k.signature == v.signature)
            {
                known_hits.insert(k.signature.clone(), k.what.clone());
            } else {
                new_violations.push(v);
            }
        }
        let mut coverage = Map::new();
        coverage.insert("evaluations".into(), json!(g.evaluations));
        coverage.insert("distinct_nontrivial".into(), json!(g.distinct.len()));
        coverage.insert("rule".into(), json!(self.rule));
        coverage.insert("samples".into(), Value::Array(g.samples.clone()));
        if self.level == "other" {
            coverage.insert("explanation".into(), json!(self.rule));
        }
        if let Some(e) = g.exhaustive {
            coverage.insert("exhaustive".into(), json!(e));
        }
        coverage.insert(
            "counters".into(),
            Value::Object(g.counters.iter().map(|(k, v)| (k.clone(), json!(v))).collect()),
        );
        for (k, v) in g.extra.iter() {
            coverage.insert(k.clone(), v.clone());
        }
        if !g.notes.is_empty() {
            coverage.insert("notes".into(), json!(g.notes));
        }
        let verdict = if !new_violations.is_empty() {
            "violated"
        } else if !g.inconclusive.is_empty() || g.distinct.len() < floor.max(2) || g.samples.is_empty() {
            "inconclusive"
        } else {
            "held"
        };
        coverage.insert("verdict".into(), json!(verdict));
        coverage.insert("floor_distinct_nontrivial".into(), json!(floor));
        if !g.inconclusive.is_empty() {
            coverage.insert("inconclusive_reasons".into(), json!(g.inconclusive));
        }
        if !known_hits.is_empty() {
            coverage.insert(
                "known_findings_observed".into(),
                json!(known_hits.keys().collect::<Vec<_>>()),
            );
        }
        let ev = json!({
            "property_id": self.property,
            "tier": ctx.tier.name(),
            "seed": ctx.seed,
            "level": self.level,
            "coverage": Value::Object(coverage),
            "assumptions": g.assumptions,
            "wall_s": ctx.elapsed(),
            "violations": new_violations.len(),
        });
        // VERIF_EVIDENCE_DIR lets a long background soak keep its records apart from the per-change evidence
        let evdir = std::env::var("VERIF_EVIDENCE_DIR").map(PathBuf::from).unwrap_or_else(|_| PathBuf::from(VERIF_DIR).join("evidence"));
        let evpath = evdir.join(format!("{}.json", self.property));
        let _ = std::fs::create_dir_all(evpath.parent().unwrap());
        std::fs::write(&evpath, serde_json::to_string_pretty(&ev).unwrap()).expect("write evidence");

        out(&format!(
            "[{}] tier={} seed={} evaluations={} distinct_nontrivial={} wall={:.1}s verdict={}",
            self.property,
            ctx.tier.name(),
            ctx.seed,
            g.evaluations,
            g.distinct.len(),
            ctx.elapsed(),
            verdict
        ));
        for (k, v) in g.counters.iter() {
            out(&format!("    {k} = {v}"));
        }
        for (sig, what) in known_hits.iter() {
            out(&format!("KNOWN-FINDING: property={} {} [{}]", self.property, what, sig));
        }
        if !new_violations.is_empty() {
            let dir = PathBuf::from(VERIF_DIR).join("replays");
            let _ = std::fs::create_dir_all(&dir);
            // print at most 3 witnesses per signature
            let mut per_sig: BTreeMap<String, usize> = BTreeMap::new();
            new_violations.retain(|v| {
                let c = per_sig.entry(v.signature.clone()).or_insert(0);
                *c += 1;
                *c <= 3
            });
            for (i, v) in new_violations.iter().enumerate() {
                let path = dir.join(format!("{}-seed{}-{}.json", self.property, ctx.seed, i));
                let body = json!({
                    "property": self.property,
                    "signature": v.signature,
                    "what": v.what,
                    "seed": ctx.seed,
                    "tier": ctx.tier.name(),
                    "case": v.replay,
                });
                let _ = std::fs::write(&path, serde_json::to_string_pretty(&body).unwrap());
                out(&format!("    violation: {} [{}]", v.what, v.signature));
                out(&format!("VIOLATION property={} replay={}", self.property, path.display()));
            }
            return 1;
        }
        if verdict == "inconclusive" {
            for r in g.inconclusive.iter() {
                out(&format!("INCONCLUSIVE property={} reason={}", self.property, r));
            }
            if g.distinct.len() < floor.max(2) {
                out(&format!(
                    "INCONCLUSIVE property={} reason=only {} distinct non-trivial cases (floor {})",
                    self.property,
                    g.distinct.len(),
                    floor
                ));
            }
            return 2;
        }
        0
    }
}

#[derive(Clone, Debug, serde::Deserialize)]
pub struct KnownFinding {
    pub property: String,
    pub state: String,
    pub signature: String,
    #[serde(default)]
    pub commit: Option<String>,
    pub what: String,
}

pub fn load_known_findings() -> Vec<KnownFinding> {
    let p = PathBuf::from(VERIF_DIR).join("known_findings.json");
    match std::fs::read_to_string(&p) {
        Ok(s) => serde_json::from_str::<Vec<KnownFinding>>(&s).unwrap_or_default(),
        Err(_) => vec![],
    }
}

pub static LAST_PANIC: Mutex<String> = Mutex::new(String::new());

static REAL_STDOUT: std::sync::atomic::AtomicI32 = std::sync::atomic::AtomicI32::new(-1);

/// The repository prints progress messages on stdout/stderr from many entry points. Redirect both to
/// /dev/null for the duration of a run and keep a private duplicate of the real stdout for verdict lines.
pub fn capture_stdio() {
    if std::env::var("VERIF_DEBUG").is_ok() {
        return;
    }
    unsafe {
        let saved = libc::dup(1);
        let devnull = libc::open(b"/dev/null\0".as_ptr() as *const libc::c_char, libc::O_WRONLY);
        if saved >= 0 && devnull >= 0 {
            libc::dup2(devnull, 1);
            libc::dup2(devnull, 2);
            libc::close(devnull);
            REAL_STDOUT.store(saved, std::sync::atomic::Ordering::SeqCst);
        }
    }
}

/// print a line on the real stdout
pub fn out(line: &str) {
    let fd = REAL_STDOUT.load(std::sync::atomic::Ordering::SeqCst);
    if fd < 0 {
        println!("{line}");
        return;
    }
    let mut buf = line.as_bytes().to_vec();
    buf.push(b'\n');
    let mut off = 0;
    while off < buf.len() {
        let n = unsafe { libc::write(fd, buf[off..].as_ptr() as *const libc::c_void, buf.len() - off) };
        if n <= 0 {
            break;
        }
        off += n as usize;
    }
}


/// Replace the default panic hook: probed APIs and generators may panic (caught and classified by
/// the monitors), so nothing is printed; the last message + location is kept for diagnostics.
pub fn quiet_panics() {
    let verbose = std::env::var("VERIF_DEBUG_PANICS").is_ok();
    std::panic::set_hook(Box::new(move |info| {
        let msg = format!("{info}");
        if verbose {
            eprintln!("[panic] {msg}");
        }
        if let Ok(mut g) = LAST_PANIC.try_lock() {
            *g = msg;
        }
    }));
}

pub fn hex64(v: u64) -> String {
    format!("{v:#x}")
}

/// scratch directory outside /repo and /verif; removed on drop
pub struct Scratch(pub PathBuf);
impl Scratch {
    pub fn new(tag: &str) -> Self {
        let base = std::env::var("VERIF_SCRATCH").unwrap_or_else(|_| "/tmp".into());
        let p = PathBuf::from(base).join(format!(
            "vf-{}-{}-{}",
            tag,
            std::process::id(),
            std::time::SystemTime::now()
                .duration_since(std::time::UNIX_EPOCH)
                .unwrap()
                .as_nanos()
        ));
        std::fs::create_dir_all(&p).unwrap();
        Scratch(p)
    }
    pub fn path(&self) -> &std::path::Path {
        &self.0
    }
}
impl Drop for Scratch {
    fn drop(&mut self) {
        let _ = std::fs::remove_dir_all(&self.0);
    }
}
