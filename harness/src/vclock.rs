//! E4: exact virtual monotonic clock by interposing `clock_gettime` in the harness executable.
//! Threads that opt in see a thread-local virtual CLOCK_MONOTONIC; everything else sees real time.

use std::cell::Cell;

thread_local! {
    static ACTIVE: Cell<bool> = const { Cell::new(false) };
    static NOW_NS: Cell<u64> = const { Cell::new(0) };
}

const BASE_NS: u64 = 1_000_000 * 1_000_000_000; // far from zero so subtraction never underflows

pub fn enable() {
    NOW_NS.with(|n| n.set(BASE_NS));
    ACTIVE.with(|a| a.set(true));
}
pub fn disable() {
    ACTIVE.with(|a| a.set(false));
}
pub fn advance_ns(d: u64) {
    NOW_NS.with(|n| n.set(n.get() + d));
}
pub fn now_ns() -> u64 {
    NOW_NS.with(|n| n.get()) - BASE_NS
}

#[no_mangle]
pub unsafe extern "C" fn clock_gettime(clk: libc::clockid_t, ts: *mut libc::timespec) -> libc::c_int {
    if clk == libc::CLOCK_MONOTONIC && ACTIVE.try_with(|a| a.get()).unwrap_or(false) {
        let n = NOW_NS.try_with(|n| n.get()).unwrap_or(BASE_NS);
        (*ts).tv_sec = (n / 1_000_000_000) as libc::time_t;
        (*ts).tv_nsec = (n % 1_000_000_000) as libc::c_long;
        return 0;
    }
    libc::syscall(libc::SYS_clock_gettime, clk, ts) as libc::c_int
}

/// self-test: two Instant::now() calls around an advance must differ by exactly the advance
pub fn self_test() -> bool {
    enable();
    let a = std::time::Instant::now();
    advance_ns(12_345);
    let b = std::time::Instant::now();
    let c = std::time::Instant::now();
    disable();
    b.duration_since(a).as_nanos() == 12_345 && c == b
}
