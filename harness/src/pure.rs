//! C24 (parsers), C25 (encodings), C26 (compact hash / node hash), C35 (transfer-proof JSON):
//! reference-model monitors over pure functions, with catch_unwind and an
//! allocation counter.

use crate::cso::{f, u};
use crate::heapmon;
use crate::leaf::{enc4, P};
use crate::util::{Ctx, Report};
use plonky2::field::goldilocks_field::GoldilocksField;

use qp_wormhole_inputs::{
    BytesDigest, PrivateBatchPublicInputs, PublicBatchPublicInputs, PublicCircuitInputs, PublicInputsByAccount,
};
use rand::Rng;
use rayon::prelude::*;
use serde_json::json;
use std::panic::{catch_unwind, AssertUnwindSafe};
use wormhole_circuit::inputs::{ParsePrivateBatchPublicInputs, ParsePublicInputs};
use zk_circuits_common::circuit::F;

const M32: u64 = u32::MAX as u64;

fn guarded<T>(fun: impl FnOnce() -> T) -> Result<T, String> {
    catch_unwind(AssertUnwindSafe(fun)).map_err(|e| {
        if let Some(s) = e.downcast_ref::<&str>() {
            s.to_string()
        } else if let Some(s) = e.downcast_ref::<String>() {
            s.clone()
        } else {
            "panic".to_string()
        }
    })
}

// ---------------------------------------------------------------------------
// C24
// ---------------------------------------------------------------------------

fn canon_digest(v: &[u64]) -> bool {
    v.iter().all(|x| *x < P)
}

fn model_leaf(v: &[u64]) -> bool {
    v.len() == 21 && [0usize, 1, 2, 3, 20].iter().all(|&i| v[i] <= M32) && canon_digest(&v[4..20])
}

/// Some(N) iff the u64 vector is a well-formed private-batch layout
fn model_private(v: &[u64]) -> Option<usize> {
    if v.len() < 8 || (v.len() - 8) % 21 != 0 {
        return None;
    }
    let n = (v.len() - 8) / 21;
    if n == 0 || n > 64 {
        return None;
    }
    if v[0] != 2 * n as u64 || v[1] > M32 || v[2] > M32 || v[7] > M32 || !canon_digest(&v[3..7]) {
        return None;
    }
    for k in 0..2 * n {
        let b = 8 + 5 * k;
        if v[b] > M32 || !canon_digest(&v[b + 1..b + 5]) {
            return None;
        }
    }
    let ns = 8 + 10 * n;
    if !canon_digest(&v[ns..ns + 4 * n]) {
        return None;
    }
    Some(n)
}

fn model_public(v: &[u64], m: usize, n: usize) -> bool {
    if m == 0 || m > 64 || n == 0 || n > 64 {
        return false;
    }
    if v.len() != 12 + 14 * n * m {
        return false;
    }
    if !canon_digest(&v[0..4]) || v[4] > M32 || v[5] > M32 || !canon_digest(&v[6..10]) || v[10] > M32 || v[11] != (2 * n * m) as u64 {
        return false;
    }
    for k in 0..2 * n * m {
        let b = 12 + 5 * k;
        if v[b] > M32 || !canon_digest(&v[b + 1..b + 5]) {
            return false;
        }
    }
    canon_digest(&v[12 + 10 * n * m..])
}

fn digest_of(v: &[u64]) -> [u8; 32] {
    let mut b = [0u8; 32];
    for i in 0..4 {
        b[i * 8..i * 8 + 8].copy_from_slice(&v[i].to_le_bytes());
    }
    b
}

fn expected_private(v: &[u64], n: usize) -> (u32, u32, u32, [u8; 32], u32, Vec<(u32, [u8; 32])>, Vec<[u8; 32]>) {
    let slots = (0..2 * n).map(|k| (v[8 + 5 * k] as u32, digest_of(&v[9 + 5 * k..13 + 5 * k]))).collect();
    let nulls = (0..n).map(|k| digest_of(&v[8 + 10 * n + 4 * k..12 + 10 * n + 4 * k])).collect();
    (v[0] as u32, v[1] as u32, v[2] as u32, digest_of(&v[3..7]), v[7] as u32, slots, nulls)
}

fn private_matches(p: &PrivateBatchPublicInputs, v: &[u64], n: usize) -> bool {
    let e = expected_private(v, n);
    p.num_exit_slots == e.0
        && p.asset_id == e.1
        && p.volume_fee_bps == e.2
        && *p.block_data.block_hash == e.3
        && p.block_data.block_number == e.4
        && p.account_data.len() == e.5.len()
        && p.account_data.iter().zip(&e.5).all(|(a, b)| a.summed_output_amount == b.0 && *a.exit_account == b.1)
        && p.nullifiers.len() == e.6.len()
        && p.nullifiers.iter().zip(&e.6).all(|(a, b)| **a == *b)
}

fn rand_val(rng: &mut impl Rng, hostile: bool) -> u64 {
    if !hostile {
        return rng.gen_range(0..P);
    }
    match rng.gen_range(0..8) {
        0 => 0,
        1 => M32,
        2 => M32 + 1,
        3 => P - 1,
        4 => P,
        5 => P + 1,
        6 => u64::MAX,
        _ => rng.gen(),
    }
}

fn valid_leaf(rng: &mut impl Rng) -> Vec<u64> {
    let mut v: Vec<u64> = (0..21).map(|_| rng.gen_range(0..P)).collect();
    for i in [0usize, 1, 2, 3, 20] {
        v[i] = if rng.gen_bool(0.2) { M32 } else { rng.gen_range(0..=M32) };
    }
    if rng.gen_bool(0.2) {
        v[5] = P - 1;
    }
    v
}

fn valid_private(rng: &mut impl Rng, n: usize) -> Vec<u64> {
    let mut v: Vec<u64> = (0..21 * n + 8).map(|_| rng.gen_range(0..P)).collect();
    v[0] = 2 * n as u64;
    for i in [1usize, 2, 7] {
        v[i] = rng.gen_range(0..=M32);
    }
    for k in 0..2 * n {
        v[8 + 5 * k] = if rng.gen_bool(0.1) { M32 } else { rng.gen_range(0..=M32) };
    }
    for k in 8 + 14 * n..v.len() {
        v[k] = if rng.gen_bool(0.7) { 0 } else { rng.gen() }; // padding is not part of the layout rules
    }
    v
}

fn valid_public(rng: &mut impl Rng, m: usize, n: usize) -> Vec<u64> {
    let mut v: Vec<u64> = (0..12 + 14 * n * m).map(|_| rng.gen_range(0..P)).collect();
    v[4] = rng.gen_range(0..=M32);
    v[5] = rng.gen_range(0..=M32);
    v[10] = rng.gen_range(0..=M32);
    v[11] = (2 * n * m) as u64;
    for k in 0..2 * n * m {
        v[12 + 5 * k] = rng.gen_range(0..=M32);
    }
    v
}

fn to_felts(v: &[u64]) -> Vec<GoldilocksField> {
    // GoldilocksField(x) keeps the raw (possibly non-canonical) representative
    v.iter().map(|x| GoldilocksField(*x)).collect()
}

fn canon_of(v: &[u64]) -> Vec<u64> {
    v.iter().map(|x| if *x >= P { *x - P } else { *x }).collect()
}

pub fn run_c24(ctx: &Ctx) -> i32 {
    let rule = "input = u64 / field-element vector (valid serialisation, single-field corruption, length around a layout boundary, non-canonical limb, huge count); \
        each is parsed by the real leaf / private-batch / public-batch parsers under catch_unwind and compared with a layout model; non-trivial = every judged vector; distinct by (parser, content hash)";
    let rep = Report::new("C24", "exploration", rule);
    rep.assume("trailing padding felts of the private-batch layout are not constrained by the property (the model ignores them)");
    let total = ctx.tier.pick(60_000usize, 12_000_000);
    let chunks = 64usize;
    (0..chunks).into_par_iter().for_each(|c| {
        let mut rng = ctx.sub_rng("c24", c as u64);
        for it in 0..total / chunks {
            if it % 1024 == 0 && ctx.over_budget() {
                return;
            }
            match rng.gen_range(0..10) {
                0..=2 => leaf_case(&mut rng, &rep),
                3..=6 => private_case(&mut rng, &rep),
                _ => public_case(&mut rng, &rep),
            }
        }
    });
    // exhaustive length sweep for the private parsers: every length 0..=8+21*66
    for len in 0..=(8 + 21 * 66) {
        let mut v = vec![0u64; len];
        if len >= 8 && (len - 8) % 21 == 0 {
            v[0] = 2 * ((len - 8) / 21) as u64;
        }
        judge_private(&v, &rep, "length-sweep");
    }
    // every (M,N) in 1..=64 at the exact length, one below, one above (public parser)
    for m in [0usize, 1, 2, 63, 64, 65, 1 << 20, usize::MAX] {
        for n in [0usize, 1, 2, 63, 64, 65, 1 << 20, usize::MAX] {
            let base = if (1..=64).contains(&m) && (1..=64).contains(&n) { 12 + 14 * m * n } else { 12 };
            for d in [-1i64, 0, 1] {
                let len = (base as i64 + d).max(0) as usize;
                let mut v = vec![0u64; len];
                if len > 11 && (1..=64).contains(&m) && (1..=64).contains(&n) {
                    v[11] = (2 * m * n) as u64;
                }
                judge_public(&v, m, n, &rep, "count-grid");
            }
        }
    }
    let mut rng = ctx.rng("samples");
    rep.sample(json!({"leaf": valid_leaf(&mut rng)}));
    rep.sample(json!({"private_n1": valid_private(&mut rng, 1)}));
    rep.finish(ctx, ctx.tier.pick(1000, 20000))
}

fn mutate(rng: &mut impl Rng, v: &mut Vec<u64>, boundaries: &[usize]) -> &'static str {
    match rng.gen_range(0..6) {
        0 => "valid",
        1 => {
            if !v.is_empty() {
                let i = rng.gen_range(0..v.len());
                v[i] = rand_val(rng, true);
            }
            "single-field"
        }
        2 => {
            if !v.is_empty() && !boundaries.is_empty() {
                let b = boundaries[rng.gen_range(0..boundaries.len())];
                let i = (b + rng.gen_range(0..3)).saturating_sub(1).min(v.len() - 1);
                v[i] = rand_val(rng, true);
            }
            "boundary-field"
        }
        3 => {
            let d = rng.gen_range(1..=2);
            if rng.gen_bool(0.5) {
                for _ in 0..d {
                    v.push(rand_val(rng, false));
                }
            } else {
                for _ in 0..d {
                    v.pop();
                }
            }
            "length"
        }
        4 => {
            if !v.is_empty() {
                v[0] = match rng.gen_range(0..4) {
                    0 => v[0].wrapping_add(1),
                    1 => v[0].wrapping_sub(1),
                    2 => 0,
                    _ => u64::MAX,
                };
            }
            "header-constant"
        }
        _ => {
            for _ in 0..3 {
                if !v.is_empty() {
                    let i = rng.gen_range(0..v.len());
                    v[i] = rand_val(rng, true);
                }
            }
            "multi-field"
        }
    }
}

fn leaf_case(rng: &mut impl Rng, rep: &Report) {
    let mut v = valid_leaf(rng);
    let fam = mutate(rng, &mut v, &[0, 4, 8, 12, 16, 20]);
    rep.eval();
    rep.count(&format!("leaf:{fam}"));
    let want = model_leaf(&v);
    let got = guarded(|| PublicCircuitInputs::try_from_u64_slice(&v));
    rep.nontrivial(&("leaf-u64", &v));
    match got {
        Err(p) => rep.violation("parser panic / leaf u64", &format!("leaf u64 parser panicked: {p}"), json!({"input": v})),
        Ok(r) => {
            if r.is_ok() != want {
                rep.violation(&format!("parser acceptance / leaf u64 got={} want={}", r.is_ok(), want),
                    "leaf u64 parser accepts/rejects differently from the layout rules", json!({"input": v}));
            } else if let Ok(p) = r {
                let ok = p.asset_id as u64 == v[0] && p.output_amount_1 as u64 == v[1] && p.output_amount_2 as u64 == v[2] && p.volume_fee_bps as u64 == v[3]
                    && *p.nullifier == digest_of(&v[4..8]) && *p.exit_account_1 == digest_of(&v[8..12]) && *p.exit_account_2 == digest_of(&v[12..16])
                    && *p.block_hash == digest_of(&v[16..20]) && p.block_number as u64 == v[20];
                if !ok {
                    rep.violation("parser value / leaf u64", "leaf u64 parser returned a structure that is not the serialised one", json!({"input": v, "parsed": format!("{p:?}")}));
                }
            }
        }
    }
    // felt form (raw representatives may be non-canonical): must agree with the u64 parser on the canonical values
    let felts = to_felts(&v);
    let cv = canon_of(&v);
    let fgot = guarded(|| <PublicCircuitInputs as ParsePublicInputs>::try_from_felts(&felts));
    let ugot = guarded(|| PublicCircuitInputs::try_from_u64_slice(&cv));
    match (fgot, ugot) {
        (Ok(a), Ok(b)) => {
            let same = match (&a, &b) {
                (Ok(x), Ok(y)) => x == y,
                (Err(_), Err(_)) => true,
                _ => false,
            };
            if !same {
                rep.violation("parser disagreement / leaf felt vs u64", "leaf felt parser and u64 parser disagree on the same values", json!({"input": v}));
            }
            rep.count("leaf_felt_vs_u64_compared");
        }
        _ => rep.violation("parser panic / leaf felt", "leaf felt parser panicked", json!({"input": v})),
    }
}

fn judge_private(v: &[u64], rep: &Report, fam: &str) {
    rep.eval();
    rep.count(&format!("private:{fam}"));
    rep.nontrivial(&("priv", v));
    let want = model_private(v);
    match guarded(|| PrivateBatchPublicInputs::try_from_u64_slice(v)) {
        Err(p) => rep.violation("parser panic / private u64", &format!("private-batch u64 parser panicked: {p}"), json!({"input": v})),
        Ok(r) => {
            if r.is_ok() != want.is_some() {
                rep.violation(&format!("parser acceptance / private u64 got={} want={}", r.is_ok(), want.is_some()),
                    "private-batch u64 parser accepts/rejects differently from the layout rules", json!({"input": v}));
            } else if let (Ok(p), Some(n)) = (&r, want) {
                if !private_matches(p, v, n) {
                    rep.violation("parser value / private u64", "private-batch u64 parser returned a structure that is not the serialised one", json!({"input": v}));
                }
            }
        }
    }
    let felts = to_felts(v);
    let cv = canon_of(v);
    let fgot = guarded(|| <PrivateBatchPublicInputs as ParsePrivateBatchPublicInputs>::try_from_felts(&felts));
    let ugot = guarded(|| PrivateBatchPublicInputs::try_from_u64_slice(&cv));
    match (fgot, ugot) {
        (Ok(a), Ok(b)) => {
            let same = match (&a, &b) {
                (Ok(x), Ok(y)) => x == y,
                (Err(_), Err(_)) => true,
                _ => false,
            };
            if !same {
                rep.violation("parser disagreement / private felt vs u64",
                    &format!("private-batch felt parser ({}) and u64 parser ({}) disagree on the same values", a.is_ok(), b.is_ok()), json!({"input": v}));
            }
            rep.count("private_felt_vs_u64_compared");
        }
        _ => rep.violation("parser panic / private felt", "private-batch felt parser panicked", json!({"input": v})),
    }
}

fn private_case(rng: &mut impl Rng, rep: &Report) {
    let n = match rng.gen_range(0..6) {
        0 => 1,
        1 => 64,
        2 => 65,
        3 => 2,
        _ => rng.gen_range(1..=64),
    };
    let mut v = valid_private(rng, n);
    let nb = [0usize, 1, 3, 7, 8, 13, 8 + 10 * n, 8 + 14 * n, 8 + 14 * n - 1];
    let fam = mutate(rng, &mut v, &nb);
    judge_private(&v, rep, fam);
}

fn judge_public(v: &[u64], m: usize, n: usize, rep: &Report, fam: &str) {
    rep.eval();
    rep.count(&format!("public:{fam}"));
    rep.nontrivial(&("pub", v.len(), m, n, v.iter().take(64).collect::<Vec<_>>(), v.iter().rev().take(8).collect::<Vec<_>>()));
    let want = model_public(v, m, n);
    match guarded(|| PublicBatchPublicInputs::try_from_u64_slice(v, m, n)) {
        Err(p) => rep.violation("parser panic / public u64", &format!("public-batch parser panicked: {p}"), json!({"len": v.len(), "m": m, "n": n})),
        Ok(r) => {
            if r.is_ok() != want {
                rep.violation(&format!("parser acceptance / public got={} want={}", r.is_ok(), want),
                    "public-batch parser accepts/rejects differently from the layout rules", json!({"input": v, "m": m, "n": n}));
            } else if let Ok(p) = r {
                let ok = *p.aggregator_address == digest_of(&v[0..4]) && p.asset_id as u64 == v[4] && p.volume_fee_bps as u64 == v[5]
                    && *p.block_data.block_hash == digest_of(&v[6..10]) && p.block_data.block_number as u64 == v[10] && p.total_exit_slots as u64 == v[11]
                    && p.account_data.len() == 2 * n * m
                    && p.account_data.iter().enumerate().all(|(k, a): (usize, &PublicInputsByAccount)| a.summed_output_amount as u64 == v[12 + 5 * k] && *a.exit_account == digest_of(&v[13 + 5 * k..17 + 5 * k]))
                    && p.nullifiers.len() == n * m
                    && p.nullifiers.iter().enumerate().all(|(k, a): (usize, &BytesDigest)| **a == digest_of(&v[12 + 10 * n * m + 4 * k..16 + 10 * n * m + 4 * k]));
                if !ok {
                    rep.violation("parser value / public", "public-batch parser returned a structure that is not the serialised one", json!({"input": v, "m": m, "n": n}));
                }
            }
        }
    }
}

fn public_case(rng: &mut impl Rng, rep: &Report) {
    let pick = |rng: &mut dyn rand::RngCore| -> usize {
        match rng.gen_range(0..6) {
            0 => 1,
            1 => 64,
            2 => 2,
            _ => rng.gen_range(1..=12),
        }
    };
    let (m, n) = (pick(rng), pick(rng));
    let mut v = valid_public(rng, m, n);
    let nb = [0usize, 4, 5, 6, 10, 11, 12, 12 + 10 * n * m, 12 + 14 * n * m - 1];
    let fam = mutate(rng, &mut v, &nb);
    // sometimes parse under neighbouring shape parameters
    let (pm, pn) = match rng.gen_range(0..8) {
        0 => (m + 1, n),
        1 => (m, n + 1),
        2 => (n, m),
        3 => (0, n),
        4 => (65, n),
        _ => (m, n),
    };
    judge_public(&v, pm, pn, rep, fam);
}

// ---------------------------------------------------------------------------
// C25
// ---------------------------------------------------------------------------

fn model_dec4(felts: &[u64]) -> Option<Vec<u8>> {
    // inverse of enc4: all limbs < 2^32, last word carries the 0x01 terminator followed by zeros
    if felts.is_empty() || felts.iter().any(|x| *x > M32) {
        return None;
    }
    let mut bytes: Vec<u8> = felts.iter().flat_map(|x| (*x as u32).to_le_bytes()).collect();
    let last = &bytes[bytes.len() - 4..];
    let idx = (0..4).rev().find(|&j| last[j] != 0)?;
    if last[idx] != 1 {
        return None;
    }
    let cut = bytes.len() - 4 + idx;
    bytes.truncate(cut);
    Some(bytes)
}

pub fn run_c25(ctx: &Ctx) -> i32 {
    use zk_circuits_common::serialization as ser;
    let rule = "input = byte string / felt vector / 32-byte digest / limb pair / u128 amount; the real encoders/decoders run under catch_unwind and are compared with an independent re-implementation; \
        non-trivial = every judged input; distinct by (function, content hash)";
    let rep = Report::new("C25", "exploration", rule);
    // (1) exhaustive over a 2-symbol alphabet up to length 12: round trip + pairwise injectivity
    {
        use std::collections::HashMap;
        let mut seen: HashMap<Vec<u64>, Vec<u8>> = HashMap::new();
        for sym in [[0u8, 1u8], [0u8, 0xffu8], [1u8, 0x80u8]] {
            for len in 0..=ctx.tier.pick(10usize, 13) {
                for bits in 0..(1u32 << len) {
                    let bytes: Vec<u8> = (0..len).map(|i| sym[((bits >> i) & 1) as usize]).collect();
                    rep.eval();
                    let enc = guarded(|| ser::bytes_to_felts(&bytes));
                    let Ok(Ok(enc)) = enc else {
                        rep.violation("encoding / bytes_to_felts failed", "bytes_to_felts failed or panicked on a short input", json!({"bytes": bytes}));
                        continue;
                    };
                    let encu: Vec<u64> = enc.iter().map(|x| u(*x)).collect();
                    let want: Vec<u64> = enc4(&bytes).iter().map(|x| u(*x)).collect();
                    if encu != want {
                        rep.violation("encoding / bytes_to_felts differs from the 4-bytes-per-felt + terminator encoding", "edge encoding differs from the reference", json!({"bytes": bytes, "got": encu, "want": want}));
                    }
                    if let Some(prev) = seen.get(&encu) {
                        if prev != &bytes {
                            rep.violation("encoding / not injective", "two byte strings encode to the same felts", json!({"a": prev, "b": bytes}));
                        }
                    } else {
                        seen.insert(encu.clone(), bytes.clone());
                    }
                    match guarded(|| ser::felts_to_bytes(&enc)) {
                        Ok(Ok(back)) if back == bytes => {}
                        other => rep.violation("encoding / round trip", "felts_to_bytes(bytes_to_felts(x)) != x", json!({"bytes": bytes, "got": format!("{other:?}")})),
                    }
                    rep.nontrivial(&("b2f", &bytes));
                }
            }
        }
        rep.set_extra("exhaustive_alphabet_strings", json!(seen.len()));
    }
    // (2) random and structured byte strings, incl. cap and cap+1
    let cap = 1usize << 20;
    let big_cases = ctx.tier.pick(6usize, 60);
    (0..big_cases).into_par_iter().for_each(|i| {
        let mut rng = ctx.sub_rng("big", i as u64);
        let len = match i % 6 {
            0 => cap,
            1 => cap + 1,
            2 => cap - 1,
            3 => cap + 4,
            _ => rng.gen_range(0..cap),
        };
        let mut bytes = vec![0u8; len];
        rng.fill(&mut bytes[..]);
        rep.eval();
        rep.nontrivial(&("big", len, i));
        let r = guarded(|| ser::bytes_to_felts(&bytes));
        match r {
            Ok(Ok(enc)) => {
                if len > cap {
                    rep.violation("encoding / cap not enforced (bytes_to_felts)", &format!("bytes_to_felts accepted {len} bytes (> 1 MiB)"), json!({"len": len}));
                }
                match guarded(|| ser::felts_to_bytes(&enc)) {
                    Ok(Ok(back)) if back == bytes => {}
                    _ => rep.violation("encoding / round trip (large)", &format!("round trip failed at length {len}"), json!({"len": len})),
                }
            }
            Ok(Err(_)) => {
                if len <= cap {
                    rep.violation("encoding / in-cap input rejected", &format!("bytes_to_felts rejected {len} bytes (<= 1 MiB)"), json!({"len": len}));
                }
            }
            Err(p) => rep.violation("encoding / panic (bytes_to_felts)", &format!("panic: {p}"), json!({"len": len})),
        }
    });
    let n_small = ctx.tier.pick(40_000usize, 8_000_000);
    (0..64usize).into_par_iter().for_each(|c| {
        let mut rng = ctx.sub_rng("small", c as u64);
        for it in 0..n_small / 64 {
            if it % 512 == 0 && ctx.over_budget() {
                return;
            }
            // x vs x||0^k, terminator look-alikes
            let len = rng.gen_range(0..64usize);
            let mut a: Vec<u8> = (0..len).map(|_| *[0u8, 1, 0xff, rng.gen()].get(rng.gen_range(0..4)).unwrap()).collect();
            if rng.gen_bool(0.3) && !a.is_empty() {
                let l = a.len();
                a[l - 1] = 1;
            }
            let mut b = a.clone();
            for _ in 0..rng.gen_range(1..=8) {
                b.push(if rng.gen_bool(0.8) { 0 } else { 1 });
            }
            rep.eval();
            let (ea, eb) = (guarded(|| ser::bytes_to_felts(&a)), guarded(|| ser::bytes_to_felts(&b)));
            match (ea, eb) {
                (Ok(Ok(ea)), Ok(Ok(eb))) => {
                    if ea == eb {
                        rep.violation("encoding / not injective", "x and x||suffix encode to the same felts", json!({"a": a, "b": b}));
                    }
                    for (x, e) in [(&a, &ea), (&b, &eb)] {
                        if guarded(|| ser::felts_to_bytes(e)).ok().and_then(|r| r.ok()).as_ref() != Some(x) {
                            rep.violation("encoding / round trip", "round trip failed", json!({"bytes": x}));
                        }
                    }
                    rep.nontrivial(&("pair", &a, &b));
                }
                _ => rep.violation("encoding / panic or error on small input", "bytes_to_felts failed", json!({"a": a})),
            }
            // malformed felt vectors through the decoder: Ok <=> reference decoder accepts, equal bytes
            let flen = rng.gen_range(0..10usize);
            let fv: Vec<u64> = (0..flen)
                .map(|_| match rng.gen_range(0..8) {
                    0 => 0,
                    1 => 1,
                    2 => M32,
                    3 => M32 + 1,
                    4 => P - 1,
                    5 => 0x0100,
                    6 => 0x0001_0000,
                    _ => rng.gen_range(0..=M32),
                })
                .collect();
            let felts: Vec<F> = fv.iter().map(|x| f(*x)).collect();
            rep.eval();
            rep.nontrivial(&("dec", &fv));
            match guarded(|| ser::felts_to_bytes(&felts)) {
                Err(p) => rep.violation("encoding / panic (felts_to_bytes)", &format!("panic: {p}"), json!({"felts": fv})),
                Ok(r) => {
                    let want = model_dec4(&fv);
                    match (&r, &want) {
                        (Ok(got), Some(w)) if got == w => {}
                        (Err(_), None) => {}
                        _ => rep.violation(&format!("encoding / decoder acceptance got={} want={}", r.is_ok(), want.is_some()),
                            "felts_to_bytes accepts/rejects or decodes differently from the reference decoder", json!({"felts": fv, "got": format!("{r:?}"), "want": format!("{want:?}")})),
                    }
                }
            }
            // digests: accept iff all limbs < p; round trip
            let limbs: Vec<u64> = (0..4)
                .map(|_| match rng.gen_range(0..7) {
                    0 => P - 1,
                    1 => P,
                    2 => P + 1,
                    3 => u64::MAX,
                    4 => 0,
                    _ => rng.gen(),
                })
                .collect();
            let bytes = digest_of(&limbs);
            rep.eval();
            rep.nontrivial(&("dig", &limbs));
            let want = limbs.iter().all(|x| *x < P);
            match guarded(|| BytesDigest::try_from(bytes)) {
                Err(p) => rep.violation("digest / panic", &format!("BytesDigest::try_from panicked: {p}"), json!({"limbs": limbs})),
                Ok(r) => {
                    if r.is_ok() != want {
                        rep.violation(&format!("digest / acceptance got={} want={}", r.is_ok(), want), "digest validation differs from 'every limb < p'", json!({"limbs": limbs}));
                    }
                    if let Ok(d) = r {
                        let fe = zk_circuits_common::utils::bytes_to_digest(d);
                        let back = zk_circuits_common::utils::digest_to_bytes(fe);
                        if *back != bytes || fe.iter().zip(&limbs).any(|(a, b)| u(*a) != *b) {
                            rep.violation("digest / round trip", "digest does not round trip through felts", json!({"limbs": limbs}));
                        }
                        let r2 = guarded(|| <BytesDigest as TryFrom<&[u8]>>::try_from(&bytes[..]));
                        if !matches!(r2, Ok(Ok(_))) {
                            rep.violation("digest / slice constructor disagrees", "slice and array constructors disagree", json!({"limbs": limbs}));
                        }
                    }
                }
            }
            let mut sb = bytes;
            match guarded(|| wormhole_circuit::sensitive::Secret::new(&mut sb)) {
                Ok(r) => {
                    if r.is_ok() != want {
                        rep.violation("digest / Secret::new acceptance", "Secret::new accepts/rejects differently from 'every limb < p'", json!({"limbs": limbs}));
                    }
                }
                Err(p) => rep.violation("digest / Secret::new panic", &format!("panic: {p}"), json!({"limbs": limbs})),
            }
            if sb != [0u8; 32] {
                // scrubbing is C33's property; here it is only recorded
                rep.count("secret_new_left_caller_buffer(owned by C33)");
            }
            // limb decoding
            let l2: [u64; 2] = [rand_val(&mut rng, true) % P, rand_val(&mut rng, true) % P];
            rep.eval();
            rep.nontrivial(&("u64limbs", l2));
            match guarded(|| ser::try_felts_to_u64([f(l2[0]), f(l2[1])])) {
                Err(p) => rep.violation("limbs / panic (u64)", &format!("panic: {p}"), json!({"limbs": l2})),
                Ok(r) => {
                    let want = l2.iter().all(|x| *x <= M32);
                    if r.is_ok() != want {
                        rep.violation("limbs / u64 acceptance", "try_felts_to_u64 accepts/rejects differently from 'limbs < 2^32'", json!({"limbs": l2}));
                    } else if let Ok(vv) = r {
                        if vv != (l2[0] << 32 | l2[1]) || ser::u64_to_felts(vv).iter().zip(&l2).any(|(a, b)| u(*a) != *b) {
                            rep.violation("limbs / u64 inverse", "u64 limb decoding does not invert encoding", json!({"limbs": l2}));
                        }
                    }
                }
            }
            let l4: [u64; 4] = [rand_val(&mut rng, true) % P, rng.gen_range(0..=M32), rng.gen_range(0..=M32 + 1), rand_val(&mut rng, true) % P];
            rep.eval();
            match guarded(|| ser::try_felts_to_u128([f(l4[0]), f(l4[1]), f(l4[2]), f(l4[3])])) {
                Err(p) => rep.violation("limbs / panic (u128)", &format!("panic: {p}"), json!({"limbs": l4})),
                Ok(r) => {
                    let want = l4.iter().all(|x| *x <= M32);
                    if r.is_ok() != want {
                        rep.violation("limbs / u128 acceptance", "try_felts_to_u128 accepts/rejects differently from 'limbs < 2^32'", json!({"limbs": l4}));
                    } else if let Ok(vv) = r {
                        let w = ((l4[0] as u128) << 96) | ((l4[1] as u128) << 64) | ((l4[2] as u128) << 32) | l4[3] as u128;
                        if vv != w || ser::u128_to_felts(vv).iter().zip(&l4).any(|(a, b)| u(*a) != *b) {
                            rep.violation("limbs / u128 inverse", "u128 limb decoding does not invert encoding", json!({"limbs": l4}));
                        }
                    }
                }
            }
            // quantised amounts
            let q = ser::AMOUNT_QUANTIZATION_FACTOR;
            let amt: u128 = match rng.gen_range(0..9) {
                0 => (M32 as u128) * q + rng.gen_range(0..q),
                1 => (M32 as u128 + 1) * q,
                2 => (M32 as u128 + 1) * q - 1,
                3 => u128::MAX,
                4 => rng.gen::<u128>(),
                5 | 6 => {
                    // truncation aliases: quantised value = hi * 2^w + lo with a valid-looking low part,
                    // for every machine width a narrowing cast could cut at (and the field modulus)
                    let lo: u128 = match rng.gen_range(0..4) {
                        0 => 0,
                        1 => M32 as u128,
                        2 => rng.gen_range(0..8),
                        _ => rng.gen_range(0..=M32 as u128),
                    };
                    let max_q = u128::MAX / q;
                    let base: u128 = match rng.gen_range(0..8) {
                        0 => 1u128 << 32,
                        1 => 1u128 << 64,
                        2 => P as u128,
                        3 => 1u128 << 63,
                        4 => 1u128 << 33,
                        5 => 1u128 << rng.gen_range(32..94),
                        6 => 1u128 << 48,
                        _ => 1u128 << 80,
                    };
                    let hi_max = ((max_q - lo) / base).max(1);
                    let hi: u128 = match rng.gen_range(0..3) {
                        0 => 1,
                        1 => hi_max,
                        _ => rng.gen_range(1..=hi_max),
                    };
                    let qv = (hi * base + lo).min(max_q);
                    (qv * q).saturating_add(if qv < max_q { rng.gen_range(0..q) } else { 0 })
                }
                7 => {
                    // quantised values just around every power of two
                    let sh = rng.gen_range(30..95u32);
                    let qv = ((1u128 << sh) + rng.gen_range(0..3) - 1).min(u128::MAX / q);
                    qv * q + if qv < u128::MAX / q { rng.gen_range(0..q) } else { 0 }
                }
                _ => rng.gen_range(0..(M32 as u128 + 2) * q),
            };
            rep.eval();
            rep.nontrivial(&("amt", amt));
            match guarded(|| ser::try_u128_to_quantized_felt(amt)) {
                Err(p) => rep.violation("amount / panic", &format!("panic: {p}"), json!({"amount": amt.to_string()})),
                Ok(r) => {
                    let want = amt / q <= M32 as u128;
                    if r.is_ok() != want {
                        rep.violation("amount / acceptance", "quantised conversion fails/succeeds differently from 'quantised value <= u32::MAX'", json!({"amount": amt.to_string()}));
                    } else if let Ok(fe) = r {
                        if u(fe) as u128 != amt / q || ser::try_felt_to_quantized_u128(fe).ok() != Some((amt / q) * q) {
                            rep.violation("amount / value", "quantised conversion returns a wrong value", json!({"amount": amt.to_string()}));
                        }
                    }
                }
            }
        }
    });
    // felts_to_bytes length cap
    {
        let capf = ser::MAX_SERIALIZED_FELTS;
        for len in [capf - 1, capf, capf + 1, capf + 1000] {
            let mut felts = vec![f(0x01010101); len];
            let l = felts.len();
            felts[l - 1] = f(1);
            rep.eval();
            let before = heapmon::thread_allocated();
            let r = guarded(|| ser::felts_to_bytes(&felts));
            let used = heapmon::thread_allocated() - before;
            match r {
                Ok(r) => {
                    if r.is_ok() != (len <= capf) {
                        rep.violation("encoding / felt cap", &format!("felts_to_bytes at {len} felts: ok={} (cap {capf})", r.is_ok()), json!({"len": len}));
                    }
                    if len > capf && used > (1 << 20) {
                        rep.violation("encoding / over-cap allocation", &format!("felts_to_bytes allocated {used} bytes before rejecting an over-cap input"), json!({"len": len}));
                    }
                }
                Err(p) => rep.violation("encoding / panic (felts_to_bytes)", &format!("panic: {p}"), json!({"len": len})),
            }
            rep.nontrivial(&("fcap", len));
        }
    }
    rep.sample(json!({"bytes": [1, 0, 255], "encoded": enc4(&[1, 0, 255]).iter().map(|x| u(*x)).collect::<Vec<_>>()}));
    rep.finish(ctx, ctx.tier.pick(1000, 20000))
}

// ---------------------------------------------------------------------------
// C26
// ---------------------------------------------------------------------------

pub fn run_c26(ctx: &Ctx) -> i32 {
    use zk_circuits_common::serialization::verif_hash_bytes_compact as hbc;
    use zk_circuits_common::zk_merkle::{hash_node, hash_node_presorted, is_canonical_hash};
    let rule = "input = byte string (every length 0..=4096, lengths around 1 MiB, limbs p-1/p/2^64-1) for the compact hash, child quadruple for node hashing; \
        acceptance compared with 'len <= 1 MiB, len % 8 == 0, every limb < p'; accepted inputs are re-hashed from an independent injective limb encoding; non-trivial = every judged input";
    let rep = Report::new("C26", "exploration", rule);
    rep.assume("injectivity is observed as: repo hash == Poseidon2 sponge (qp_poseidon_core::hash_to_bytes / hash_variable_length) over the independent 8-byte-LE limb map, which is injective on canonical limbs; hash collisions are out of scope");
    let native = |input: &[u8]| -> [u8; 32] {
        let limbs: Vec<u64> = input.chunks(8).map(|c| u64::from_le_bytes(c.try_into().unwrap())).collect();
        qp_poseidon_hash(&limbs)
    };
    // all lengths 0..=4096
    let max_len = ctx.tier.pick(1024usize, 16384);
    (0..=max_len).into_par_iter().for_each(|len| {
        let mut rng = ctx.sub_rng("len", len as u64);
        for variant in 0..3 {
            let mut bytes = vec![0u8; len];
            rng.fill(&mut bytes[..]);
            // force canonical limbs except in variant 2
            for c in bytes.chunks_mut(8) {
                if c.len() == 8 {
                    let mut v = u64::from_le_bytes((&*c).try_into().unwrap());
                    if v >= P {
                        v -= P;
                    }
                    c.copy_from_slice(&v.to_le_bytes());
                }
            }
            let mut bad_limb = false;
            if variant == 2 && len >= 8 {
                let k = rng.gen_range(0..len / 8);
                let v = *[P, P + 1, u64::MAX, P - 1].get(rng.gen_range(0..4)).unwrap();
                bytes[8 * k..8 * k + 8].copy_from_slice(&v.to_le_bytes());
                bad_limb = v >= P;
            }
            rep.eval();
            rep.nontrivial(&("len", len, variant));
            let want = len % 8 == 0 && !bad_limb;
            match guarded(|| hbc(&bytes)) {
                Err(p) => rep.violation("compact-hash / panic", &format!("panic at len {len}: {p}"), json!({"len": len})),
                Ok(r) => {
                    if r.is_ok() != want {
                        rep.violation(&format!("compact-hash / acceptance got={} want={}", r.is_ok(), want),
                            &format!("compact hash accepts/rejects differently from the domain rule at len {len} (bad limb: {bad_limb})"), json!({"bytes": bytes}));
                    } else if let Ok(hh) = r {
                        if hh != native(&bytes) {
                            rep.violation("compact-hash / encoding differs from the injective limb map", "compact hash is not the Poseidon2 hash of the 8-byte-LE limb sequence", json!({"bytes": bytes}));
                        }
                        // trailing zero limb must change the hash (length separation)
                        if len >= 8 && len % 8 == 0 {
                            let mut ext = bytes.clone();
                            ext.extend_from_slice(&[0u8; 8]);
                            if hbc(&ext).ok() == Some(hh) {
                                rep.violation("compact-hash / length not separated", "x and x||0^8 hash identically", json!({"bytes": bytes}));
                            }
                        }
                    }
                }
            }
        }
    });
    // around the cap
    let cap = 1usize << 20;
    // long inputs: besides acceptance, the hash must still be the sponge over the injective limb map of the WHOLE input
    // (lengths around every power of two up to the cap, so that any internal segmentation threshold is crossed)
    let mut long_lens: Vec<usize> = vec![cap - 8, cap, cap + 8, cap + 1, cap - 1];
    for sh in 12..20usize {
        long_lens.extend_from_slice(&[(1 << sh) - 8, 1 << sh, (1 << sh) + 8]);
    }
    long_lens.extend_from_slice(&[3 * (1 << 16) + 16, 5 * (1 << 17) + 8]);
    let mut lrng = ctx.rng("long");
    for len in long_lens {
        let mut bytes = vec![0x5au8; len];
        // random canonical limbs (not a constant fill: a segmented hash of equal segments could coincide)
        for c in bytes.chunks_mut(8) {
            if c.len() == 8 {
                c.copy_from_slice(&lrng.gen_range(0..P).to_le_bytes());
            }
        }
        rep.eval();
        rep.nontrivial(&("cap", len));
        let before = heapmon::thread_allocated();
        let r = guarded(|| hbc(&bytes));
        let used = heapmon::thread_allocated() - before;
        match r {
            Err(p) => rep.violation("compact-hash / panic", &format!("panic at len {len}: {p}"), json!({"len": len})),
            Ok(r) => {
                let want = len <= cap && len % 8 == 0;
                if r.is_ok() != want {
                    rep.violation(&format!("compact-hash / cap got={} want={}", r.is_ok(), want), &format!("compact hash at len {len}"), json!({"len": len}));
                } else if let Ok(hh) = r {
                    rep.count("long_inputs_compared_with_the_limb_map");
                    if hh != native(&bytes) {
                        rep.violation("compact-hash / encoding differs from the injective limb map (long input)", &format!("compact hash of a {len}-byte input is not the Poseidon2 hash of its 8-byte-LE limb sequence"), json!({"len": len}));
                    }
                }
                if len > cap && used > 4096 {
                    rep.violation("compact-hash / over-cap allocation", &format!("allocated {used} bytes before rejecting an over-cap input"), json!({"len": len}));
                }
            }
        }
    }
    // node hashing
    let quads = ctx.tier.pick(4000usize, 4_000_000);
    (0..64usize).into_par_iter().for_each(|c| {
        let mut rng = ctx.sub_rng("node", c as u64);
        for it in 0..quads / 64 {
            if it % 256 == 0 && ctx.over_budget() {
                return;
            }
            let mut ch = [[0u8; 32]; 4];
            for x in ch.iter_mut() {
                for k in 0..4 {
                    let v: u64 = match rng.gen_range(0..12) {
                        0 => P - 1,
                        1 => 0,
                        _ => rng.gen_range(0..P),
                    };
                    x[8 * k..8 * k + 8].copy_from_slice(&v.to_le_bytes());
                }
            }
            if rng.gen_bool(0.2) {
                ch[1] = ch[0];
            }
            let noncanon = rng.gen_bool(0.2);
            if noncanon {
                let v = *[P, P + 1, u64::MAX].get(rng.gen_range(0..3)).unwrap();
                let (i, k) = (rng.gen_range(0..4), rng.gen_range(0..4));
                ch[i][8 * k..8 * k + 8].copy_from_slice(&v.to_le_bytes());
            }
            rep.eval();
            rep.nontrivial(&("quad", ch));
            let r = guarded(|| hash_node(&ch));
            match r {
                Err(p) => rep.violation("node-hash / panic", &format!("hash_node panicked: {p}"), json!({"children": ch.iter().map(hex::encode).collect::<Vec<_>>()})),
                Ok(r) => {
                    let all_canon = ch.iter().all(is_canonical_hash) && !noncanon;
                    if r.is_ok() != all_canon {
                        rep.violation(&format!("node-hash / acceptance got={} want={}", r.is_ok(), all_canon), "hash_node accepts a non-canonical child or rejects canonical ones", json!({"children": ch.iter().map(hex::encode).collect::<Vec<_>>()}));
                    }
                    if let Ok(hh) = r {
                        let mut sorted = ch;
                        sorted.sort();
                        if hash_node_presorted(&sorted).ok() != Some(hh) {
                            rep.violation("node-hash / presorted mismatch", "hash_node != hash_node_presorted(sorted children)", json!({"children": ch.iter().map(hex::encode).collect::<Vec<_>>()}));
                        }
                        for perm in crate::wrapcheck::all_perms(4) {
                            let pc = [ch[perm[0]], ch[perm[1]], ch[perm[2]], ch[perm[3]]];
                            if hash_node(&pc).ok() != Some(hh) {
                                rep.violation("node-hash / order dependent", "hash_node depends on child order", json!({"children": ch.iter().map(hex::encode).collect::<Vec<_>>(), "perm": perm}));
                            }
                        }
                        let flat: Vec<u8> = sorted.iter().flatten().copied().collect();
                        if native(&flat) != hh {
                            rep.violation("node-hash / not the compact hash of sorted children", "hash_node is not the Poseidon2 hash of the sorted children's limbs", json!({}));
                        }
                    } else {
                        // presorted on the same children must also be an error, not a panic
                        if !matches!(guarded(|| hash_node_presorted(&ch)), Ok(Err(_))) {
                            rep.violation("node-hash / presorted accepts non-canonical", "hash_node_presorted accepted or panicked on a non-canonical child", json!({}));
                        }
                    }
                }
            }
        }
    });
    rep.sample(json!({"input_len": 16, "hash": hex::encode(hbc(&[7u8; 16]).unwrap_or([0; 32]))}));
    rep.finish(ctx, ctx.tier.pick(1000, 10000))
}

/// Poseidon2 sponge with the variable-length (10*) padding used by qp-poseidon-core, evaluated through
/// plonky2's native Poseidon2 permutation (independent of /repo's serialization module).
fn qp_poseidon_hash(limbs: &[u64]) -> [u8; 32] {
    let felts: Vec<qp_poseidon_core::Goldilocks> = limbs.iter().map(|x| qp_poseidon_core::Goldilocks::new(*x)).collect();
    qp_poseidon_core::hash_to_bytes(&felts)
}

// ---------------------------------------------------------------------------
// C35
// ---------------------------------------------------------------------------

pub fn run_c35(ctx: &Ctx) -> i32 {
    use zk_circuits_common::circuit::*;
    let rule = "input = transfer-proof JSON document (sizes at cap-1/cap/cap+1 of each of the five field caps and the 8 MiB raw cap, escaped strings, extra/duplicate fields, deep nesting, truncation); \
        parsed by the real from_json_str under catch_unwind with an allocation counter; non-trivial = every judged document; distinct by (family, parameters)";
    let rep = Report::new("C35", "exploration", rule);
    let mk = |tc: &str, root: &str, nodes: &[String], idx: &[usize], extra: &str| -> String {
        let nodes_s: Vec<String> = nodes.iter().map(|n| format!("\"{n}\"")).collect();
        format!(
            "{{\"transfer_count\":{tc},\"state_root\":\"{root}\",\"storage_proof\":[{}],\"indices\":[{}]{extra}}}",
            nodes_s.join(","),
            idx.iter().map(|i| i.to_string()).collect::<Vec<_>>().join(",")
        )
    };
    let judge = |fam: &str, doc: &str, expect_ok: Option<bool>, params: serde_json::Value| {
        rep.eval();
        rep.count(&format!("family:{fam}"));
        rep.nontrivial(&(fam.to_string(), params.to_string()));
        let before = heapmon::thread_allocated();
        let r = guarded(|| TransferProofJson::from_json_str(doc));
        let used = heapmon::thread_allocated() - before;
        match r {
            Err(p) => rep.violation("transfer-proof / panic", &format!("from_json_str panicked ({fam}): {p}"), params.clone()),
            Ok(r) => {
                if doc.len() > MAX_TRANSFER_PROOF_JSON_BYTES {
                    if r.is_ok() {
                        rep.violation("transfer-proof / raw cap not enforced", &format!("document of {} bytes (> 8 MiB) was accepted", doc.len()), params.clone());
                    }
                    if used > 64 * 1024 {
                        rep.violation("transfer-proof / over-cap document parsed before rejection", &format!("{used} bytes allocated while rejecting a {}-byte document", doc.len()), params.clone());
                    }
                }
                if let Ok(d) = &r {
                    if let Err(e) = d.validate() {
                        rep.violation("transfer-proof / accepted document fails validate()", &format!("from_json_str accepted a document that validate() rejects: {e}"), params.clone());
                    }
                    let total: usize = d.storage_proof.iter().map(|s| s.len()).sum();
                    if d.state_root.len() > MAX_STATE_ROOT_HEX_LEN || d.storage_proof.len() > MAX_STORAGE_PROOF_NODES
                        || d.storage_proof.iter().any(|s| s.len() > MAX_STORAGE_PROOF_NODE_HEX_LEN) || total > MAX_STORAGE_PROOF_HEX_BYTES || d.indices.len() > MAX_MERKLE_INDICES {
                        rep.violation("transfer-proof / over-cap field accepted", "a document exceeding a field cap was accepted", params.clone());
                    }
                }
                if let Some(e) = expect_ok {
                    if r.is_ok() != e {
                        rep.violation(&format!("transfer-proof / acceptance got={} want={} ({fam})", r.is_ok(), e),
                            &format!("document of family {fam} was {} (error: {:?})", if r.is_ok() {"accepted"} else {"rejected"}, r.as_ref().err()), params.clone());
                    }
                }
            }
        }
    };
    let hexs = |n: usize| "a".repeat(n);
    // caps: state root
    for d in [-1i64, 0, 1, 64] {
        let n = (MAX_STATE_ROOT_HEX_LEN as i64 + d) as usize;
        judge("state-root-cap", &mk("1", &hexs(n), &["00".into()], &[0], ""), Some(n <= MAX_STATE_ROOT_HEX_LEN), json!({"state_root_len": n}));
    }
    // node count
    for d in [-1i64, 0, 1] {
        let n = (MAX_STORAGE_PROOF_NODES as i64 + d) as usize;
        let nodes: Vec<String> = vec!["ab".to_string(); n];
        judge("node-count-cap", &mk("1", "00", &nodes, &[0], ""), Some(n <= MAX_STORAGE_PROOF_NODES), json!({"nodes": n}));
    }
    // node length == total length cap (both 1 MiB)
    for d in [-1i64, 0, 1] {
        let n = (MAX_STORAGE_PROOF_NODE_HEX_LEN as i64 + d) as usize;
        judge("node-len-cap", &mk("1", "00", &[hexs(n)], &[0], ""), Some(n <= MAX_STORAGE_PROOF_NODE_HEX_LEN.min(MAX_STORAGE_PROOF_HEX_BYTES)), json!({"node_len": n}));
    }
    // total length over several nodes
    for d in [-1i64, 0, 1] {
        let total = (MAX_STORAGE_PROOF_HEX_BYTES as i64 + d) as usize;
        let parts = 7usize;
        let mut nodes: Vec<String> = vec![hexs(total / parts); parts];
        let rem = total - (total / parts) * parts;
        nodes[0].push_str(&hexs(rem));
        judge("total-len-cap", &mk("1", "00", &nodes, &[0], ""), Some(total <= MAX_STORAGE_PROOF_HEX_BYTES), json!({"total": total, "parts": parts}));
    }
    // total length with ESCAPED nodes (serde hands strings with escapes to a different visitor method than plain ones):
    // every node within the per-node cap, the decoded total at cap-1 / cap / cap+1 / 2*cap, escapes in all / the first / the last node
    for (total, parts) in [(MAX_STORAGE_PROOF_HEX_BYTES - 1, 2usize), (MAX_STORAGE_PROOF_HEX_BYTES, 2), (MAX_STORAGE_PROOF_HEX_BYTES + 1, 2), (MAX_STORAGE_PROOF_HEX_BYTES + 2, 3), (2 * MAX_STORAGE_PROOF_HEX_BYTES, 4)] {
        for which in ["all", "first", "last"] {
            let mut nodes: Vec<String> = vec![];
            let mut left = total;
            for k in 0..parts {
                let decoded = if k + 1 == parts { left } else { total / parts };
                left -= decoded;
                let esc = match which { "all" => true, "first" => k == 0, _ => k + 1 == parts };
                // one escaped character (decodes to 'a') followed by plain ones
                nodes.push(if esc && decoded >= 1 { format!("\\u0061{}", hexs(decoded - 1)) } else { hexs(decoded) });
            }
            let doc = mk("1", "00", &nodes, &[0], "");
            if doc.len() <= MAX_TRANSFER_PROOF_JSON_BYTES {
                judge("total-len-cap-escaped", &doc, Some(total <= MAX_STORAGE_PROOF_HEX_BYTES), json!({"decoded_total": total, "parts": parts, "escaped": which}));
            }
        }
    }
    // per-node cap with an escaped node
    for d in [-1i64, 0, 1] {
        let n = (MAX_STORAGE_PROOF_NODE_HEX_LEN as i64 + d) as usize;
        let node = format!("\\u0061{}", hexs(n - 1));
        judge("node-len-cap-escaped", &mk("1", "00", &[node], &[0], ""), Some(n <= MAX_STORAGE_PROOF_NODE_HEX_LEN.min(MAX_STORAGE_PROOF_HEX_BYTES)), json!({"decoded_node_len": n}));
    }
    // index count
    for d in [-1i64, 0, 1] {
        let n = (MAX_MERKLE_INDICES as i64 + d) as usize;
        let idx: Vec<usize> = (0..n).collect();
        judge("index-cap", &mk("1", "00", &["00".into()], &idx, ""), Some(n <= MAX_MERKLE_INDICES), json!({"indices": n}));
    }
    // raw cap with whitespace padding / escaped strings
    for d in [-1i64, 0, 1, 4096] {
        let target = (MAX_TRANSFER_PROOF_JSON_BYTES as i64 + d) as usize;
        let base = mk("1", "00", &["00".into()], &[0], "");
        let pad = target - base.len();
        let doc = format!("{}{}", " ".repeat(pad), base);
        judge("raw-cap-whitespace", &doc, Some(target <= MAX_TRANSFER_PROOF_JSON_BYTES), json!({"len": target}));
        // escape-inflated state_root: a * k
        let k = (target.saturating_sub(base.len())) / 6;
        let root = "\\u0061".repeat(k);
        let doc = mk("1", &root, &["00".into()], &[0], "");
        judge("raw-cap-escaped", &doc, if doc.len() > MAX_TRANSFER_PROOF_JSON_BYTES { Some(false) } else { Some(k <= MAX_STATE_ROOT_HEX_LEN) }, json!({"len": doc.len(), "escapes": k}));
    }
    // escaped strings inside caps
    for k in [1usize, 64, 65, 1000] {
        let root = "\\u0061".repeat(k);
        judge("escaped-state-root", &mk("1", &root, &["00".into()], &[0], ""), Some(k <= MAX_STATE_ROOT_HEX_LEN), json!({"escapes": k}));
    }
    // multi-byte characters: the caps are byte caps (validate() measures bytes), so a string may be within the cap counted in
    // characters and over it in bytes; literal UTF-8 and \u escapes (incl. surrogate pairs), for the state root and for nodes
    for (ch, esc, width) in [("\u{e9}", "\\u00e9", 2usize), ("\u{20ac}", "\\u20ac", 3), ("\u{1f600}", "\\ud83d\\ude00", 4)] {
        for chars in [MAX_STATE_ROOT_HEX_LEN / width, MAX_STATE_ROOT_HEX_LEN / width + 1, MAX_STATE_ROOT_HEX_LEN / 2, MAX_STATE_ROOT_HEX_LEN - 1, MAX_STATE_ROOT_HEX_LEN, MAX_STATE_ROOT_HEX_LEN + 1] {
            let bytes = chars * width;
            let want = if bytes > MAX_STATE_ROOT_HEX_LEN { Some(false) } else { None };
            judge("state-root-multibyte", &mk("1", &ch.repeat(chars), &["00".into()], &[0], ""), want, json!({"chars": chars, "bytes": bytes, "form": "literal"}));
            judge("state-root-multibyte", &mk("1", &esc.repeat(chars), &["00".into()], &[0], ""), want, json!({"chars": chars, "bytes": bytes, "form": "escaped"}));
            // mixed: ASCII up to the cap in characters, one wide character among them
            if chars >= 2 {
                let mixed = format!("{}{}", "a".repeat(chars - 1), ch);
                let mb = chars - 1 + width;
                judge("state-root-multibyte", &mk("1", &mixed, &["00".into()], &[0], ""), if mb > MAX_STATE_ROOT_HEX_LEN { Some(false) } else { None }, json!({"chars": chars, "bytes": mb, "form": "mixed"}));
            }
        }
        for chars in [MAX_STORAGE_PROOF_NODE_HEX_LEN / width, MAX_STORAGE_PROOF_NODE_HEX_LEN / width + 1, MAX_STORAGE_PROOF_NODE_HEX_LEN - 1] {
            let bytes = chars * width;
            judge("node-multibyte", &mk("1", "00", &[ch.repeat(chars)], &[0], ""), if bytes > MAX_STORAGE_PROOF_NODE_HEX_LEN.min(MAX_STORAGE_PROOF_HEX_BYTES) { Some(false) } else { None }, json!({"chars": chars, "bytes": bytes}));
        }
        // total over several nodes: each node within the per-node cap in bytes, the sum over the total cap in bytes but not in characters
        let parts = 4usize;
        let per = MAX_STORAGE_PROOF_HEX_BYTES / parts / width + 8;
        let nodes: Vec<String> = vec![ch.repeat(per); parts];
        let total = per * width * parts;
        judge("total-multibyte", &mk("1", "00", &nodes, &[0], ""), if total > MAX_STORAGE_PROOF_HEX_BYTES { Some(false) } else { None }, json!({"chars_total": per * parts, "bytes_total": total}));
    }
    // extra / duplicate / missing fields, nesting, truncation
    let base = mk("7", "00", &["00".into(), "ff".into()], &[0, 1, 2], "");
    judge("valid-small", &base, Some(true), json!({}));
    judge("extra-field", &mk("7", "00", &["00".into()], &[0], ",\"zzz\":[1,2,{\"a\":null}]"), None, json!({"k": "extra"}));
    judge("duplicate-field", &mk("7", "00", &["00".into()], &[0], ",\"transfer_count\":8"), None, json!({"k": "dup"}));
    judge("missing-field", "{\"transfer_count\":1,\"state_root\":\"00\",\"storage_proof\":[]}", Some(false), json!({"k": "missing"}));
    judge("wrong-type", "{\"transfer_count\":\"1\",\"state_root\":\"00\",\"storage_proof\":[],\"indices\":[]}", Some(false), json!({"k": "type"}));
    judge("negative-index", "{\"transfer_count\":1,\"state_root\":\"00\",\"storage_proof\":[],\"indices\":[-1]}", Some(false), json!({"k": "neg"}));
    judge("huge-count", "{\"transfer_count\":18446744073709551616,\"state_root\":\"00\",\"storage_proof\":[],\"indices\":[]}", Some(false), json!({"k": "u64+1"}));
    for depth in [10usize, 127, 128, 129, 100_000] {
        let doc = format!("{{\"transfer_count\":1,\"state_root\":\"00\",\"storage_proof\":[],\"indices\":[],\"x\":{}{}}}", "[".repeat(depth), "]".repeat(depth));
        judge("deep-nesting", &doc, None, json!({"depth": depth}));
    }
    let mut rng = ctx.rng("trunc");
    for _ in 0..ctx.tier.pick(200usize, 50000) {
        let cut = rng.gen_range(0..base.len());
        judge("truncated", &base[..cut], Some(false), json!({"cut": cut}));
        let mut b = base.clone().into_bytes();
        let i = rng.gen_range(0..b.len());
        b[i] = rng.gen_range(0x20..0x7f);
        if let Ok(s) = String::from_utf8(b) {
            judge("byte-flip", &s, None, json!({"i": i, "doc": s}));
        }
    }
    // random documents with random sizes around caps
    let n_rand = ctx.tier.pick(60usize, 20000);
    (0..n_rand).into_par_iter().for_each(|i| {
        if ctx.over_budget() {
            return;
        }
        let mut rng = ctx.sub_rng("rand", i as u64);
        let rl = *[0usize, 63, 64, 65, 2].get(rng.gen_range(0..5)).unwrap();
        let nn = *[0usize, 1, 1023, 1024, 1025, 5].get(rng.gen_range(0..6)).unwrap();
        let nl = *[0usize, 2, 1000, 1024, 1025].get(rng.gen_range(0..5)).unwrap();
        let ni = *[0usize, 1, 1023, 1024, 1025].get(rng.gen_range(0..5)).unwrap();
        let nodes: Vec<String> = vec![hexs(nl); nn];
        let idx: Vec<usize> = (0..ni).map(|_| rng.gen_range(0..usize::MAX)).collect();
        let want = rl <= MAX_STATE_ROOT_HEX_LEN && nn <= MAX_STORAGE_PROOF_NODES && nl <= MAX_STORAGE_PROOF_NODE_HEX_LEN && nn * nl <= MAX_STORAGE_PROOF_HEX_BYTES && ni <= MAX_MERKLE_INDICES;
        judge("random-sizes", &mk(&rng.gen::<u64>().to_string(), &hexs(rl), &nodes, &idx, ""), Some(want), json!({"root": rl, "nodes": nn, "node_len": nl, "indices": ni}));
    });
    rep.sample(json!({"document": base}));
    rep.finish(ctx, ctx.tier.pick(100, 1000))
}
