use std::time::Instant;
use vf_harness::util::{Ctx, Tier};

fn main() {
    let args: Vec<String> = std::env::args().collect();
    if args.len() < 2 {
        eprintln!("usage: vf <Cxx> [--tier quick|thorough] [--seed N] [--replay path]");
        std::process::exit(2);
    }
    let prop = args[1].clone();
    let mut tier = match std::env::var("VERIF_TIER").ok().as_deref() {
        Some("thorough") => Tier::Thorough,
        _ => Tier::Quick,
    };
    let mut seed: u64 = std::env::var("VERIF_SEED").ok().and_then(|s| s.parse().ok()).unwrap_or(0);
    let mut i = 2;
    while i < args.len() {
        match args[i].as_str() {
            "--tier" => {
                tier = if args.get(i + 1).map(|s| s.as_str()) == Some("thorough") { Tier::Thorough } else { Tier::Quick };
                i += 1;
            }
            "--seed" => {
                seed = args.get(i + 1).and_then(|s| s.parse().ok()).unwrap_or(seed);
                i += 1;
            }
            _ => {}
        }
        i += 1;
    }
    let soft_cap_s = std::env::var("VERIF_SOFT_CAP_S")
        .ok()
        .and_then(|s| s.parse().ok())
        .unwrap_or(match tier {
            Tier::Quick => 240.0,
            Tier::Thorough => 1500.0,
        });
    let ctx = Ctx { property: prop.clone(), tier, seed, start: Instant::now(), soft_cap_s };
    vf_harness::util::quiet_panics();
    let code = match prop.as_str() {
        "C01" | "C02" | "C03" | "C04" => vf_harness::leafcheck::run(&prop, &ctx),
        "C06" | "C07" | "C08" | "C09" => vf_harness::wrapcheck::run_private(&prop, &ctx),
        "C12" | "C13" => vf_harness::wrapcheck::run_public(&prop, &ctx),
        "C36" => vf_harness::wrapcheck::run_c36(&ctx),
        _ => {
            eprintln!("unknown property {prop}");
            2
        }
    };
    std::process::exit(code);
}
