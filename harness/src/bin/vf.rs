use std::time::Instant;
use vf_harness::util::{Ctx, Tier};

#[global_allocator]
static ALLOC: vf_harness::heapmon::Mon = vf_harness::heapmon::Mon;

fn main() {
    let args: Vec<String> = std::env::args().collect();
    if args.len() < 2 {
        eprintln!("usage: vf <Cxx> [--tier quick|thorough] [--seed N] [--replay path]");
        std::process::exit(2);
    }
    if args[1] == "child-generate" {
        // child mode for syscall-level fault injection (C23): run the real, unhooked generator and exit
        std::process::exit(vf_harness::faults::child_generate(args.get(2).map(|s| s.as_str()).unwrap_or("")));
    }
    if args[1] == "judge-private" {
        // replay helper: `vf judge-private <replay.json>` re-judges the supplied private-batch vector of a C06-C09/C14 replay
        // file with the reference model and the constraint oracle on the wrapper-only circuit, several times
        std::process::exit(vf_harness::provers::judge_private_replay(args.get(2).map(|s| s.as_str()).unwrap_or("")));
    }
    let prop = args[1].clone();
    let mut tier = match std::env::var("VERIF_TIER").ok().as_deref() {
        Some("thorough") => Tier::Thorough,
        _ => Tier::Quick,
    };
    let mut seed: u64 = std::env::var("VERIF_SEED").ok().and_then(|s| s.parse().ok()).unwrap_or(0);
    let mut i = 2;
    while i < args.len() {
        match args[i].as_str() {
            "--tier" => {
                tier = if args.get(i + 1).map(|s| s.as_str()) == Some("thorough") { Tier::Thorough } else { Tier::Quick };
                i += 1;
            }
            "--seed" => {
                seed = args.get(i + 1).and_then(|s| s.parse().ok()).unwrap_or(seed);
                i += 1;
            }
            _ => {}
        }
        i += 1;
    }
    let soft_cap_s = std::env::var("VERIF_SOFT_CAP_S")
        .ok()
        .and_then(|s| s.parse().ok())
        .unwrap_or(match tier {
            Tier::Quick => 400.0,
            Tier::Thorough => 1500.0,
        });
    let ctx = Ctx { property: prop.clone(), tier, seed, start: Instant::now(), soft_cap_s };
    vf_harness::util::quiet_panics();
    vf_harness::util::capture_stdio();
    let run = || -> i32 {
        match prop.as_str() {
            "C01" | "C02" | "C03" | "C04" => vf_harness::leafcheck::run(&prop, &ctx),
            "C06" | "C07" | "C08" | "C09" => vf_harness::wrapcheck::run_private(&prop, &ctx),
            "C12" | "C13" => vf_harness::wrapcheck::run_public(&prop, &ctx),
            "C36" => vf_harness::wrapcheck::run_c36(&ctx),
            "C24" => vf_harness::pure::run_c24(&ctx),
            "C25" => vf_harness::pure::run_c25(&ctx),
            "C26" => vf_harness::pure::run_c26(&ctx),
            "C35" => vf_harness::pure::run_c35(&ctx),
            "C05" => vf_harness::realleaf::run_c05(&ctx),
            "C27" => vf_harness::realleaf::run_c27(&ctx),
            "C32" => vf_harness::secrets::run_c32(&ctx),
            "C33" => vf_harness::secrets::run_c33(&ctx),
            "C10" => vf_harness::gadgets::run_c10(&ctx),
            "C30" => vf_harness::gadgets::run_c30(&ctx),
            "C31" => vf_harness::gadgets::run_c31(&ctx),
            "C19" | "C20" | "C21" | "C22" => vf_harness::poolcheck::run(&prop, &ctx),
            "C14" => vf_harness::provers::run_c14(&ctx),
            "C15" => vf_harness::provers::run_c15(&ctx),
            "C16" => vf_harness::artifacts::run_c16(&ctx),
            "C17" => vf_harness::artifacts::run_c17(&ctx),
            "C18" => vf_harness::artifacts::run_c18(&ctx),
            "C23" => vf_harness::faults::run_c23(&ctx),
            "C34" => vf_harness::leanref::run_c34(&ctx),
            "C11" => vf_harness::foreign::run_c11(&ctx),
            "C28" => vf_harness::policy::run_c28(&ctx),
            "C29" => vf_harness::policy::run_c29(&ctx),
            _ => {
                eprintln!("unknown property {prop}");
                2
            }
        }
    };
    let code = match std::panic::catch_unwind(std::panic::AssertUnwindSafe(run)) {
        Ok(c) => c,
        Err(_) => {
            let msg = vf_harness::util::LAST_PANIC.lock().map(|g| g.clone()).unwrap_or_default();
            vf_harness::util::out(&format!("INCONCLUSIVE property={prop} reason=harness panicked outside a guarded probe: {}", msg.replace('\n', " ")));
            2
        }
    };
    std::process::exit(code);
}
