//! E2: hint-override adversary on top of the CSO. Generator outputs are pinned
//! BEFORE the inputs (so the override wins in its copy-constraint partition),
//! everything downstream is regenerated, the assignment is judged.

use crate::cso::{f, u, Cso, Run};
use crate::leaf::P;
use crate::util::Report;
use plonky2::field::types::Field;
use plonky2::iop::target::Target;
use rayon::prelude::*;
use zk_circuits_common::circuit::F;

const M32: u64 = (1 << 32) - 1;

/// override sets for one generator, from its honest outputs
pub fn override_sets(gen_id: &str, gi: usize, outs: &[(Target, F)], thorough: bool) -> Vec<Vec<(Target, F)>> {
    let mut sets: Vec<Vec<(Target, F)>> = vec![];
    if outs.is_empty() {
        return sets;
    }
    for (k, (t, v)) in outs.iter().enumerate() {
        if outs.len() > 8 && !thorough && k % 5 != (gi % 5) && k != outs.len() - 1 && k != 0 {
            continue; // long limb vectors: sample limbs in quick mode
        }
        let mut vals = vec![*v + F::ONE, *v - F::ONE, F::ZERO, F::ONE, F::ONE - *v, f(P - 1)];
        if thorough {
            vals.extend_from_slice(&[f(2), f(1 << 32), f(M32), *v + f(1 << 32), F::ZERO - *v]);
        }
        for nv in vals {
            if nv != *v {
                sets.push(vec![(*t, nv)]);
            }
        }
    }
    if gen_id.starts_with("EqualityGenerator") && outs.len() >= 2 {
        let (t0, v0) = outs[0];
        let (t1, v1) = outs[1];
        sets.push(vec![(t0, F::ONE - v0), (t1, F::ZERO)]);
        sets.push(vec![(t0, F::ONE - v0), (t1, F::ONE)]);
        sets.push(vec![(t0, F::ONE - v0), (t1, v1)]);
        sets.push(vec![(t0, F::ONE), (t1, F::ZERO)]);
        sets.push(vec![(t0, F::ZERO), (t1, F::ZERO)]);
    }
    if gen_id.starts_with("LowHighGenerator") && outs.len() == 2 {
        let (tl, lo) = outs[0];
        let (th, hi) = outs[1];
        let (lo_u, hi_u) = (u(lo), u(hi));
        // value reconstructed with a 32-bit low part; aliases of the same field element
        if lo_u <= M32 && hi_u <= M32 {
            let v = (hi_u as u128) << 32 | lo_u as u128;
            let alias = v + P as u128;
            if alias < (1u128 << 64) {
                sets.push(vec![(tl, f((alias & M32 as u128) as u64)), (th, f((alias >> 32) as u64))]);
            }
            if v >= P as u128 {
                let c = v - P as u128;
                sets.push(vec![(tl, f((c & M32 as u128) as u64)), (th, f((c >> 32) as u64))]);
            }
        }
        // same linear combination, limbs out of range
        sets.push(vec![(tl, lo + f(1 << 32)), (th, hi - F::ONE)]);
        sets.push(vec![(tl, lo - f(1 << 32)), (th, hi + F::ONE)]);
        // lo + 2^32*hi == v + p spelled with an over-wide low part
        sets.push(vec![(tl, lo + F::ONE), (th, hi + f(M32))]);
    }
    if (gen_id.starts_with("BaseSplitGenerator") || gen_id.starts_with("WireSplitGenerator")) && outs.len() >= 2 {
        // move a carry between adjacent limbs / swap two limbs
        let k = gi % (outs.len() - 1);
        let (ta, va) = outs[k];
        let (tb, vb) = outs[k + 1];
        sets.push(vec![(ta, va + f(2)), (tb, vb - F::ONE)]);
        sets.push(vec![(ta, vb), (tb, va)]);
        // p-alias of the decomposed integer when it fits the limb count
        if outs.len() >= 64 && outs.iter().all(|(_, v)| u(*v) <= 1) {
            let mut val: u128 = 0;
            for (i, (_, v)) in outs.iter().enumerate().take(64) {
                val |= (u(*v) as u128) << i;
            }
            let alias = val + P as u128;
            if alias < (1u128 << 64) {
                sets.push(outs.iter().enumerate().take(64).map(|(i, (t, _))| (*t, f(((alias >> i) & 1) as u64))).collect());
            }
        }
    }
    sets
}

pub struct SweepOutcome {
    pub tried: u64,
    pub effective: u64,
    pub accepted: u64,
}

/// `on_accept(run, gen index, override set)` is called for every ACCEPTED, EFFECTIVE override;
/// `on_reject` semantics are counted only. Returns counts.
pub fn sweep(
    cso: &Cso,
    pre0: &[(Target, F)],
    pins: &[(Target, F)],
    stride: usize,
    offset: usize,
    thorough: bool,
    rep: &Report,
    on_accept: &(dyn Fn(&Run, usize, &[(Target, F)]) + Sync),
) -> SweepOutcome {
    let honest = cso.run(pre0, pins, true);
    let honest_vals = honest.pw.values.clone();
    let mask = cso.random_reps(&honest);
    let ngen = honest.gen_outputs.len();
    let idxs: Vec<usize> = (0..ngen).filter(|g| g % stride.max(1) == offset % stride.max(1)).collect();
    let tried = std::sync::atomic::AtomicU64::new(0);
    let effective = std::sync::atomic::AtomicU64::new(0);
    let accepted = std::sync::atomic::AtomicU64::new(0);
    idxs.par_iter().for_each(|&gi| {
        let sets = override_sets(&cso.gen_ids[gi], gi, &honest.gen_outputs[gi], thorough);
        for set in sets {
            let mut pre = set.clone();
            pre.extend_from_slice(pre0);
            let run = cso.run(&pre, pins, false);
            tried.fetch_add(1, std::sync::atomic::Ordering::Relaxed);
            rep.eval();
            if !cso.differs(&run.pw.values, &honest_vals, &mask) {
                continue;
            }
            effective.fetch_add(1, std::sync::atomic::Ordering::Relaxed);
            rep.count(&format!("override_gen:{}", cso.gen_ids[gi]));
            let ev = cso.eval(&run);
            if !ev.accepted() {
                rep.nontrivial(&("ovr", gi, set.iter().map(|(t, v)| (cso.target_index(*t), u(*v))).collect::<Vec<_>>(), pins.len(), pins.first().map(|p| u(p.1)), pins.last().map(|p| u(p.1))));
                continue;
            }
            accepted.fetch_add(1, std::sync::atomic::Ordering::Relaxed);
            rep.nontrivial(&("ovr-acc", gi, set.iter().map(|(t, v)| (cso.target_index(*t), u(*v))).collect::<Vec<_>>()));
            on_accept(&run, gi, &set);
        }
    });
    let o = SweepOutcome {
        tried: tried.into_inner(),
        effective: effective.into_inner(),
        accepted: accepted.into_inner(),
    };
    rep.add("override_tried", o.tried);
    rep.add("override_effective", o.effective);
    rep.add("override_accepted", o.accepted);
    o
}

/// pairwise single-target overrides (small circuits only)
pub fn sweep_pairs(
    cso: &Cso,
    pins: &[(Target, F)],
    max_pairs: usize,
    rep: &Report,
    on_accept: &(dyn Fn(&Run, &[(Target, F)]) + Sync),
) {
    let honest = cso.run(&[], pins, true);
    let honest_vals = honest.pw.values.clone();
    let mask = cso.random_reps(&honest);
    let mut singles: Vec<(Target, F)> = vec![];
    for outs in honest.gen_outputs.iter() {
        for (t, v) in outs.iter().take(3) {
            for nv in [*v + F::ONE, F::ONE - *v, F::ZERO] {
                if nv != *v {
                    singles.push((*t, nv));
                }
            }
        }
    }
    let n = singles.len();
    let total = n * (n - 1).max(1) / 2;
    let step = (total / max_pairs.max(1)).max(1);
    let pairs: Vec<(usize, usize)> = (0..n).flat_map(|i| ((i + 1)..n).map(move |j| (i, j))).step_by(step).collect();
    pairs.par_iter().for_each(|&(i, j)| {
        if singles[i].0 == singles[j].0 {
            return;
        }
        let pre = vec![singles[i], singles[j]];
        let run = cso.run(&pre, pins, false);
        rep.eval();
        rep.count("override_pairs_tried");
        if !cso.differs(&run.pw.values, &honest_vals, &mask) {
            return;
        }
        if cso.eval(&run).accepted() {
            rep.count("override_pairs_accepted");
            on_accept(&run, &pre);
        }
    });
}
