//! Private-/public-batch wrapper circuits instantiated over FREE child
//! public-input targets (form W, hooks H1/H2), the full recursive forms (F over a
//! fake 21-PI leaf, R over the real leaf), and independent reference models of
//! both wrappers written from the property statements.

use crate::cso::{f, u, Cso, Run};
use crate::leaf::{h, D4};
use anyhow::Result;
use plonky2::field::types::Field;
use plonky2::iop::target::Target;
use plonky2::iop::witness::{PartialWitness, WitnessWrite};
use plonky2::plonk::circuit_builder::CircuitBuilder;
use plonky2::plonk::circuit_data::{CircuitConfig, CircuitData};
use plonky2::plonk::proof::{OpeningSetTarget, ProofTarget, ProofWithPublicInputs, ProofWithPublicInputsTarget};
use plonky2::fri::proof::FriProofTarget;
use plonky2::gadgets::polynomial::PolynomialCoeffsExtTarget;
use plonky2::hash::hash_types::MerkleCapTarget;
use wormhole_aggregator::private_batch::circuit::circuit_logic::{
    verif_build_private_batch_constraints, PrivateBatchCircuit, PrivateBatchCircuitTargets,
};
use wormhole_aggregator::public_batch::circuit::circuit_logic::{
    verif_build_public_batch_constraints, PublicBatchCircuit, PublicBatchCircuitTargets,
};
use zk_circuits_common::circuit::{
    wormhole_private_batch_circuit_config, wormhole_public_batch_circuit_config, C, D, F,
};

pub const LEAF_PI: usize = 21;

pub fn priv_pi_len(n: usize) -> usize {
    21 * n + 8
}
pub fn pub_pi_len(m: usize, n: usize) -> usize {
    12 + 14 * n * m
}

fn empty_proof_target(b: &mut CircuitBuilder<F, D>) -> ProofTarget<D> {
    ProofTarget {
        wires_cap: MerkleCapTarget(vec![]),
        plonk_zs_partial_products_cap: MerkleCapTarget(vec![]),
        quotient_polys_cap: MerkleCapTarget(vec![]),
        openings: OpeningSetTarget {
            constants: vec![],
            plonk_sigmas: vec![],
            wires: vec![],
            plonk_zs: vec![],
            plonk_zs_next: vec![],
            lookup_zs: vec![],
            next_lookup_zs: vec![],
            partial_products: vec![],
            quotient_polys: vec![],
        },
        opening_proof: FriProofTarget {
            commit_phase_merkle_caps: vec![],
            query_round_proofs: vec![],
            final_poly: PolynomialCoeffsExtTarget(vec![]),
            pow_witness: b.zero(),
        },
    }
}

pub fn w_config_private() -> CircuitConfig {
    let mut c = wormhole_private_batch_circuit_config();
    c.zero_knowledge = false; // blinding rows are irrelevant to wrapper logic
    c
}

// ---------------------------------------------------------------------------
// Private wrapper, form W
// ---------------------------------------------------------------------------

pub struct PrivW {
    pub cso: Cso,
    pub child: Vec<Vec<Target>>,
    pub pre: Vec<[Target; 4]>,
    pub n: usize,
}

impl PrivW {
    pub fn build(n: usize) -> Result<Self> {
        let mut b = CircuitBuilder::<F, D>::new(w_config_private());
        let mut leaf_proofs = vec![];
        let mut child = vec![];
        for _ in 0..n {
            let pis = b.add_virtual_targets(LEAF_PI);
            child.push(pis.clone());
            let proof = empty_proof_target(&mut b);
            leaf_proofs.push(ProofWithPublicInputsTarget { proof, public_inputs: pis });
        }
        let mut pre = vec![];
        for _ in 0..n {
            let t = b.add_virtual_targets(4);
            pre.push([t[0], t[1], t[2], t[3]]);
        }
        let targets = PrivateBatchCircuitTargets {
            leaf_proofs,
            dummy_nullifier_pre_images: pre.clone(),
        };
        verif_build_private_batch_constraints(&mut b, &targets, n);
        let data = b.build::<C>();
        Ok(Self { cso: Cso::new(data)?, child, pre, n })
    }

    pub fn pins(&self, children: &[Vec<F>], preimages: &[D4]) -> Vec<(Target, F)> {
        let mut p = vec![];
        for (ts, vs) in self.child.iter().zip(children) {
            for (t, v) in ts.iter().zip(vs) {
                p.push((*t, *v));
            }
        }
        for (ts, vs) in self.pre.iter().zip(preimages) {
            for (t, v) in ts.iter().zip(vs) {
                p.push((*t, *v));
            }
        }
        p
    }

    pub fn judge<'a>(&'a self, children: &[Vec<F>], preimages: &[D4], pre: &[(Target, F)]) -> (bool, Vec<F>, Run<'a>) {
        let pins = self.pins(children, preimages);
        let run = self.cso.run(pre, &pins, false);
        let ev = self.cso.eval(&run);
        let out = self.cso.public_inputs(&run);
        (ev.accepted(), out, run)
    }

    pub fn read_children(&self, run: &Run) -> (Vec<Vec<F>>, Vec<D4>) {
        let ch = self.child.iter().map(|ts| self.cso.get_many(run, ts)).collect();
        let pr = self
            .pre
            .iter()
            .map(|ts| {
                let v = self.cso.get_many(run, ts);
                [v[0], v[1], v[2], v[3]]
            })
            .collect();
        (ch, pr)
    }
}

// ---------------------------------------------------------------------------
// Public wrapper, form W
// ---------------------------------------------------------------------------

pub struct PubW {
    pub cso: Cso,
    pub child: Vec<Vec<Target>>,
    pub addr: [Target; 4],
    pub m: usize,
    pub n: usize,
}

impl PubW {
    pub fn build(m: usize, n: usize) -> Result<Self> {
        let mut b = CircuitBuilder::<F, D>::new(wormhole_public_batch_circuit_config());
        let mut proofs = vec![];
        let mut child = vec![];
        for _ in 0..m {
            let pis = b.add_virtual_targets(priv_pi_len(n));
            child.push(pis.clone());
            let proof = empty_proof_target(&mut b);
            proofs.push(ProofWithPublicInputsTarget { proof, public_inputs: pis });
        }
        let a = b.add_virtual_targets(4);
        let addr = [a[0], a[1], a[2], a[3]];
        let targets = PublicBatchCircuitTargets {
            private_batch_proofs: proofs,
            aggregator_address: addr,
        };
        verif_build_public_batch_constraints(&mut b, &targets, m, n);
        let data = b.build::<C>();
        Ok(Self { cso: Cso::new(data)?, child, addr, m, n })
    }

    pub fn pins(&self, inners: &[Vec<F>], addr: &D4) -> Vec<(Target, F)> {
        let mut p = vec![];
        for (ts, vs) in self.child.iter().zip(inners) {
            for (t, v) in ts.iter().zip(vs) {
                p.push((*t, *v));
            }
        }
        for (t, v) in self.addr.iter().zip(addr) {
            p.push((*t, *v));
        }
        p
    }

    pub fn judge<'a>(&'a self, inners: &[Vec<F>], addr: &D4, pre: &[(Target, F)]) -> (bool, Vec<F>, Run<'a>) {
        let pins = self.pins(inners, addr);
        let run = self.cso.run(pre, &pins, false);
        let ev = self.cso.eval(&run);
        let out = self.cso.public_inputs(&run);
        (ev.accepted(), out, run)
    }
}

// ---------------------------------------------------------------------------
// Reference models (from the property statements)
// ---------------------------------------------------------------------------

#[derive(Clone, Debug)]
pub struct Slot {
    pub asset: F,
    pub out1: F,
    pub out2: F,
    pub fee: F,
    pub nullifier: D4,
    pub exit1: D4,
    pub exit2: D4,
    pub block_hash: D4,
    pub number: F,
}

impl Slot {
    pub fn to_pis(&self) -> Vec<F> {
        let mut v = vec![self.asset, self.out1, self.out2, self.fee];
        v.extend_from_slice(&self.nullifier);
        v.extend_from_slice(&self.exit1);
        v.extend_from_slice(&self.exit2);
        v.extend_from_slice(&self.block_hash);
        v.push(self.number);
        v
    }
    pub fn from_pis(p: &[F]) -> Self {
        let d = |i: usize| -> D4 { [p[i], p[i + 1], p[i + 2], p[i + 3]] };
        Slot {
            asset: p[0],
            out1: p[1],
            out2: p[2],
            fee: p[3],
            nullifier: d(4),
            exit1: d(8),
            exit2: d(12),
            block_hash: d(16),
            number: p[20],
        }
    }
    pub fn is_real(&self) -> bool {
        self.block_hash.iter().any(|x| *x != F::ZERO)
    }
}

pub fn canon(d: &D4) -> [u64; 4] {
    [u(d[0]), u(d[1]), u(d[2]), u(d[3])]
}

#[derive(Clone, Debug, PartialEq, Eq)]
pub enum PrivReject {
    Asset,
    Block,
    Fee,
    DuplicateNullifier,
    SumOverflow,
}

/// Grouping of the dummy-masked (account, amount) pairs in slot order.
/// Returns per pair: (is_first_occurrence, account, group sum over the INTEGERS).
pub fn group_pairs(slots: &[Slot]) -> Vec<(bool, D4, u128)> {
    let mut pairs: Vec<(D4, u128)> = vec![];
    for s in slots {
        if s.is_real() {
            pairs.push((s.exit1, u(s.out1) as u128));
            pairs.push((s.exit2, u(s.out2) as u128));
        } else {
            pairs.push(([F::ZERO; 4], 0));
            pairs.push(([F::ZERO; 4], 0));
        }
    }
    let mut out = vec![];
    for (i, (acct, _)) in pairs.iter().enumerate() {
        let first = !pairs[..i].iter().any(|(a, _)| a == acct);
        let sum: u128 = pairs.iter().filter(|(a, _)| a == acct).map(|(_, v)| *v).sum();
        out.push((first, *acct, sum));
    }
    out
}

pub fn priv_model_accept(slots: &[Slot]) -> Result<(), PrivReject> {
    let a0 = slots[0].asset;
    if slots.iter().any(|s| s.asset != a0) {
        return Err(PrivReject::Asset);
    }
    let reals: Vec<&Slot> = slots.iter().filter(|s| s.is_real()).collect();
    if let Some(r0) = reals.first() {
        if reals.iter().any(|s| s.block_hash != r0.block_hash) {
            return Err(PrivReject::Block);
        }
        if reals.iter().any(|s| s.fee != r0.fee) {
            return Err(PrivReject::Fee);
        }
    }
    for i in 0..reals.len() {
        for j in (i + 1)..reals.len() {
            if reals[i].nullifier == reals[j].nullifier {
                return Err(PrivReject::DuplicateNullifier);
            }
        }
    }
    for (first, _, sum) in group_pairs(slots) {
        if first && sum >= (1u128 << 32) {
            return Err(PrivReject::SumOverflow);
        }
    }
    Ok(())
}

pub fn dummy_nullifier(pre: &D4) -> D4 {
    h(&h(pre))
}

/// The 21N+8 output felts the property prescribes for an accepted vector.
pub fn priv_model_output(slots: &[Slot], preimages: &[D4]) -> Vec<F> {
    let n = slots.len();
    let mut out = vec![f(2 * n as u64), slots[0].asset];
    match slots.iter().find(|s| s.is_real()) {
        Some(r) => {
            out.push(r.fee);
            out.extend_from_slice(&r.block_hash);
            out.push(r.number);
        }
        None => out.extend_from_slice(&[F::ZERO; 6]),
    }
    for (first, acct, sum) in group_pairs(slots) {
        if first {
            out.push(f(sum as u64));
            out.extend_from_slice(&acct);
        } else {
            out.extend_from_slice(&[F::ZERO; 5]);
        }
    }
    let mut nulls: Vec<[u64; 4]> = slots
        .iter()
        .zip(preimages)
        .map(|(s, p)| if s.is_real() { canon(&s.nullifier) } else { canon(&dummy_nullifier(p)) })
        .collect();
    nulls.sort();
    for nl in nulls {
        out.extend(nl.iter().map(|x| f(*x)));
    }
    while out.len() < priv_pi_len(n) {
        out.push(F::ZERO);
    }
    out
}

/// Whether a child statement is one the real leaf circuit can attest
pub fn attainable(s: &Slot) -> bool {
    let lim = 1u64 << 32;
    let ok_ranges = u(s.asset) < lim && u(s.out1) < lim && u(s.out2) < lim && u(s.fee) <= 10000 && u(s.number) < lim;
    let dummy_ok = s.is_real() || (s.out1 == F::ZERO && s.out2 == F::ZERO);
    ok_ranges && dummy_ok
}

// ---- public wrapper model ----

pub fn inner_is_real(inner: &[F]) -> bool {
    inner[3..7].iter().any(|x| *x != F::ZERO)
}

pub fn pub_model_accept(inners: &[Vec<F>]) -> bool {
    let reals: Vec<&Vec<F>> = inners.iter().filter(|i| inner_is_real(i)).collect();
    if let Some(r0) = reals.first() {
        for r in &reals {
            if r[3..7] != r0[3..7] || r[1] != r0[1] || r[2] != r0[2] {
                return false;
            }
        }
    }
    true
}

pub fn pub_model_output(inners: &[Vec<F>], addr: &D4, n: usize) -> Vec<F> {
    let m = inners.len();
    let mut out = addr.to_vec();
    match inners.iter().find(|i| inner_is_real(i)) {
        Some(r) => {
            out.push(r[1]);
            out.push(r[2]);
            out.extend_from_slice(&r[3..7]);
            out.push(r[7]);
        }
        None => out.extend_from_slice(&[F::ZERO; 7]),
    }
    out.push(f((2 * n * m) as u64));
    for inner in inners {
        let real = inner_is_real(inner);
        for k in 0..(10 * n) {
            out.push(if real { inner[8 + k] } else { F::ZERO });
        }
    }
    for inner in inners {
        let real = inner_is_real(inner);
        for k in 0..(4 * n) {
            out.push(if real { inner[8 + 10 * n + k] } else { F::ZERO });
        }
    }
    out
}

// ---------------------------------------------------------------------------
// Full recursive forms
// ---------------------------------------------------------------------------

/// Fake 21-PI leaf (unconstrained apart from three range checks), standard config.
pub struct FakeLeaf {
    pub data: CircuitData<F, C, D>,
    pub pis: Vec<Target>,
}

impl FakeLeaf {
    pub fn build(num_pis: usize) -> Self {
        let mut b = CircuitBuilder::<F, D>::new(CircuitConfig::standard_recursion_config());
        let pis = b.add_virtual_targets(num_pis);
        b.range_check(pis[1], 32);
        b.range_check(pis[2], 32);
        b.range_check(pis[3], 32);
        b.register_public_inputs(&pis);
        let data = b.build::<C>();
        Self { data, pis }
    }
    pub fn prove(&self, vals: &[F]) -> Result<ProofWithPublicInputs<F, C, D>> {
        let mut pw = PartialWitness::new();
        for (t, v) in self.pis.iter().zip(vals) {
            pw.set_target(*t, *v)?;
        }
        self.data.prove(pw)
    }
}

/// Full private-batch circuit (production ZK config) over a given child circuit.
pub struct PrivFull {
    pub data: CircuitData<F, C, D>,
    pub targets: PrivateBatchCircuitTargets,
    pub n: usize,
}

impl PrivFull {
    pub fn build(child: &CircuitData<F, C, D>, n: usize) -> Result<Self> {
        let c = PrivateBatchCircuit::new(
            wormhole_private_batch_circuit_config(),
            &child.common,
            &child.verifier_only,
            n,
        )?;
        let targets = c.targets();
        let data = c.build_circuit();
        Ok(Self { data, targets, n })
    }
    pub fn partial_witness(&self, proofs: &[ProofWithPublicInputs<F, C, D>], preimages: &[D4]) -> Result<PartialWitness<F>> {
        let mut pw = PartialWitness::new();
        for (t, p) in self.targets.leaf_proofs.iter().zip(proofs) {
            pw.set_proof_with_pis_target(t, p)?;
        }
        for (ts, vs) in self.targets.dummy_nullifier_pre_images.iter().zip(preimages) {
            for (t, v) in ts.iter().zip(vs) {
                pw.set_target(*t, *v)?;
            }
        }
        Ok(pw)
    }
    /// prove + verify; Ok(public inputs) only if the proof verifies
    pub fn prove(&self, proofs: &[ProofWithPublicInputs<F, C, D>], preimages: &[D4]) -> Result<ProofWithPublicInputs<F, C, D>> {
        let pw = self.partial_witness(proofs, preimages)?;
        let proof = self.data.prove(pw)?;
        self.data.verify(proof.clone())?;
        Ok(proof)
    }
}

pub struct PubFull {
    pub data: CircuitData<F, C, D>,
    pub targets: PublicBatchCircuitTargets,
    pub m: usize,
    pub n: usize,
}

impl PubFull {
    pub fn build(child: &CircuitData<F, C, D>, m: usize, n: usize) -> Result<Self> {
        let c = PublicBatchCircuit::new(
            wormhole_public_batch_circuit_config(),
            child.common.clone(),
            &child.verifier_only,
            m,
            n,
        )?;
        let targets = c.targets();
        let data = c.build_circuit();
        Ok(Self { data, targets, m, n })
    }
    pub fn prove(&self, proofs: &[ProofWithPublicInputs<F, C, D>], addr: &D4) -> Result<ProofWithPublicInputs<F, C, D>> {
        let mut pw = PartialWitness::new();
        for (t, p) in self.targets.private_batch_proofs.iter().zip(proofs) {
            pw.set_proof_with_pis_target(t, p)?;
        }
        for (t, v) in self.targets.aggregator_address.iter().zip(addr) {
            pw.set_target(*t, *v)?;
        }
        let proof = self.data.prove(pw)?;
        self.data.verify(proof.clone())?;
        Ok(proof)
    }
}
