//! C32 (Debug redaction) and C33 (scrubbing before free).

use crate::cso::{f, u};
use crate::heapmon;
use crate::leaf::{enc4, rand_d4, D4, P};
use crate::realleaf::{d4_bytes, honest_inputs};
use crate::util::{Ctx, Report};
use plonky2::field::types::Field;
use qp_wormhole_inputs::BytesDigest;
use rand::Rng;
use rayon::prelude::*;
use serde_json::json;
use std::collections::HashSet;
use wormhole_circuit::block_header::header::HeaderInputs;
use wormhole_circuit::block_header::BlockHeader;
use wormhole_circuit::inputs::CircuitInputs;
use wormhole_circuit::nullifier::Nullifier;
use wormhole_circuit::sensitive::Secret;
use wormhole_circuit::unspendable_account::UnspendableAccount;
use wormhole_circuit::zk_merkle_proof::ZkMerkleProofData;
use zk_circuits_common::circuit::F;

// ---------------------------------------------------------------------------
// C32
// ---------------------------------------------------------------------------

/// tokens = maximal runs of [0-9A-Za-z_]
fn tokens(s: &str) -> HashSet<String> {
    let mut out = HashSet::new();
    let mut cur = String::new();
    for c in s.chars() {
        if c.is_ascii_alphanumeric() || c == '_' {
            cur.push(c.to_ascii_lowercase());
        } else if !cur.is_empty() {
            out.insert(std::mem::take(&mut cur));
        }
    }
    if !cur.is_empty() {
        out.insert(cur);
    }
    out
}

struct Needles {
    /// exact tokens (lower-case): decimal numbers, hex numbers with/without 0x
    tokens: Vec<(String, String)>,
    /// substrings of the lower-cased dump with all whitespace removed
    substrings: Vec<(String, String)>,
}

fn add_int(n: &mut Needles, what: &str, v: u64) {
    if v >= 1_000_000 {
        n.tokens.push((v.to_string(), format!("{what} decimal")));
        n.tokens.push((format!("{v:x}"), format!("{what} hex")));
        n.tokens.push((format!("0x{v:x}"), format!("{what} 0x-hex")));
        n.tokens.push((format!("{v:016x}"), format!("{what} padded hex")));
        n.tokens.push((format!("0x{v:016x}"), format!("{what} padded 0x-hex")));
    }
}

fn add_bytes(n: &mut Needles, what: &str, b: &[u8]) {
    // the empty hash (all-zero sibling of a sparse tree) and other constant fills identify nothing and
    // legitimately appear in public fields
    if b.iter().all(|x| *x == b[0]) {
        return;
    }
    // hex of the whole value, both byte orders, as substrings (>= 8 bytes)
    if b.len() >= 8 {
        n.substrings.push((hex::encode(b), format!("{what} hex")));
        let mut r = b.to_vec();
        r.reverse();
        n.substrings.push((hex::encode(&r), format!("{what} reversed hex")));
        // decimal byte list modulo whitespace, 8-byte windows at limb boundaries
        for (k, w) in b.chunks(8).enumerate() {
            if w.len() == 8 && w.iter().any(|x| *x > 9) {
                let lst = w.iter().map(|x| x.to_string()).collect::<Vec<_>>().join(",");
                n.substrings.push((lst, format!("{what} byte list (chunk {k})")));
                n.substrings.push((hex::encode(w), format!("{what} limb {k} hex bytes")));
            }
        }
    }
    // limbs and halves as integers
    for (k, w) in b.chunks(8).enumerate() {
        if w.len() == 8 {
            let v = u64::from_le_bytes(w.try_into().unwrap());
            add_int(n, &format!("{what} limb {k}"), v);
            add_int(n, &format!("{what} limb {k} BE"), u64::from_be_bytes(w.try_into().unwrap()));
            add_int(n, &format!("{what} half {k}.lo"), v & 0xFFFF_FFFF);
            add_int(n, &format!("{what} half {k}.hi"), v >> 32);
        }
    }
}

fn search(dump: &str, n: &Needles, public_tokens: &HashSet<String>) -> Vec<String> {
    let toks = tokens(dump);
    let squeezed: String = dump.chars().filter(|c| !c.is_whitespace()).collect::<String>().to_ascii_lowercase();
    let mut hits = vec![];
    for (t, what) in &n.tokens {
        if public_tokens.contains(t) {
            continue;
        }
        if toks.contains(t) {
            hits.push(format!("{what} = {t}"));
        }
    }
    for (s, what) in &n.substrings {
        if squeezed.contains(s) {
            hits.push(format!("{what} ~ {s}"));
        }
    }
    hits
}

pub fn run_c32(ctx: &Ctx) -> i32 {
    let rule = "case = random honest CircuitInputs (depth 8..16 so the position list is distinctive); each of PrivateCircuitInputs, CircuitInputs, Nullifier, UnspendableAccount, ZkLeafData (inside ZkMerkleProofData), ZkMerkleProofData, \
        HeaderInputs, BlockHeader and a committed WormholeProver is rendered with {:?} and {:#?}; the monitor derives decimal / hex / byte-list renderings of every private value (secret, deposit account, transfer count, input amount, digest logs, siblings, positions) \
        and searches them as alphanumeric tokens / whitespace-free substrings; non-trivial = every rendered (type, format) pair; distinct by (type, format, case)";
    let rep = Report::new("C32", "exploration", rule);
    rep.assume("decimal and hex integer renderings are matched as whole alphanumeric tokens (so digits inside a public hex hash are not a match); byte strings >= 8 bytes are matched as substrings");
    let n = ctx.tier.pick(1500usize, 60_000);
    (0..n).into_par_iter().for_each(|i| {
        if i % 32 == 0 && ctx.over_budget() {
            return;
        }
        let mut rng = ctx.sub_rng("c32", i as u64);
        let depth = rng.gen_range(8..=16usize);
        let mut hc = honest_inputs(&mut rng, depth, i % 5 == 4, false);
        // structured secrets as well
        if i % 7 == 0 {
            let pat = [0xABu8, 0xCD, 0x11, 0x7f][rng.gen_range(0..4)];
            let mut sb = [pat; 32];
            for k in 0..4 {
                sb[k * 8 + 7] = 0x7f; // keep limbs canonical
            }
            hc.inputs.private.secret = Secret::try_from(sb).unwrap();
        }
        if hc.inputs.private.input_amount < 1_000_000 {
            hc.inputs.private.input_amount += 1_000_000;
        }
        let inputs: &CircuitInputs = &hc.inputs;
        // public tokens of this case: anything legitimately printable
        let mut public_dump = format!("{:?} {:#?}", inputs.public, inputs.public);
        public_dump.push_str(&format!(" {:?} {:?} {:?} {:?}", inputs.private.parent_hash, inputs.private.state_root, inputs.private.extrinsics_root, inputs.private.zk_tree_root));
        for d in [&inputs.private.parent_hash, &inputs.private.state_root, &inputs.private.extrinsics_root] {
            for w in d.chunks(8) {
                public_dump.push_str(&format!(" {}", u64::from_le_bytes(w.try_into().unwrap())));
            }
        }
        for w in inputs.private.zk_tree_root.chunks(8) {
            public_dump.push_str(&format!(" {}", u64::from_le_bytes(w.try_into().unwrap())));
        }
        let public_tokens = tokens(&public_dump);
        let mut nd = Needles { tokens: vec![], substrings: vec![] };
        let secret_bytes: [u8; 32] = *inputs.private.secret.expose_digest();
        add_bytes(&mut nd, "secret", &secret_bytes);
        add_bytes(&mut nd, "deposit account", &*inputs.private.unspendable_account);
        add_int(&mut nd, "transfer count", inputs.private.transfer_count);
        add_int(&mut nd, "transfer count hi", inputs.private.transfer_count >> 32);
        add_int(&mut nd, "transfer count lo", inputs.private.transfer_count & 0xFFFF_FFFF);
        add_int(&mut nd, "input amount", inputs.private.input_amount as u64);
        add_bytes(&mut nd, "digest logs", &inputs.private.digest[..104]);
        for (k, fe) in enc4(&inputs.private.digest).iter().enumerate() {
            add_int(&mut nd, &format!("digest felt {k}"), u(*fe));
        }
        for (l, lvl) in inputs.private.zk_merkle_siblings.iter().enumerate() {
            for (s, sib) in lvl.iter().enumerate() {
                add_bytes(&mut nd, &format!("sibling {l}.{s}"), sib);
            }
        }
        let pos = &inputs.private.zk_merkle_positions;
        if pos.len() >= 8 {
            nd.substrings.push((pos.iter().map(|x| x.to_string()).collect::<Vec<_>>().join(","), "positions list".into()));
            nd.substrings.push((hex::encode(pos), "positions hex".into()));
        }
        let mut renderings: Vec<(&'static str, String, String)> = vec![];
        let mut push = |name: &'static str, a: String, b: String| renderings.push((name, a, b));
        push("PrivateCircuitInputs", format!("{:?}", inputs.private), format!("{:#?}", inputs.private));
        push("CircuitInputs", format!("{:?}", inputs), format!("{:#?}", inputs));
        let nul = Nullifier::from(inputs);
        push("Nullifier", format!("{:?}", nul), format!("{:#?}", nul));
        let nul2 = Nullifier::from_preimage(inputs.private.secret.expose_digest(), inputs.private.transfer_count);
        push("Nullifier(from_preimage)", format!("{:?}", nul2), format!("{:#?}", nul2));
        let ua = UnspendableAccount::from(inputs);
        push("UnspendableAccount", format!("{:?}", ua), format!("{:#?}", ua));
        let ua2 = UnspendableAccount::from_secret(inputs.private.secret.expose_digest());
        push("UnspendableAccount(from_secret)", format!("{:?}", ua2), format!("{:#?}", ua2));
        if let Ok(m) = ZkMerkleProofData::try_from(inputs) {
            push("ZkLeafData", format!("{:?}", m.leaf), format!("{:#?}", m.leaf));
            push("ZkMerkleProofData", format!("{:?}", m), format!("{:#?}", m));
        }
        if let Ok(hd) = HeaderInputs::try_from(inputs) {
            push("HeaderInputs", format!("{:?}", hd), format!("{:#?}", hd));
        }
        if let Ok(bh) = BlockHeader::try_from(inputs) {
            push("BlockHeader", format!("{:?}", bh), format!("{:#?}", bh));
        }
        if i % 8 == 0 {
            if let Ok(p) = wormhole_prover::WormholeProver::new(zk_circuits_common::circuit::wormhole_leaf_circuit_config()).and_then(|p| p.commit(inputs)) {
                push("WormholeProver(committed)", format!("{:?}", p), format!("{:#?}", p));
            }
        }
        for (name, plain, pretty) in renderings {
            for (fmt, dump) in [("{:?}", &plain), ("{:#?}", &pretty)] {
                rep.eval();
                rep.nontrivial(&(name, fmt, i));
                rep.count(&format!("rendered:{name}"));
                let hits = search(dump, &nd, &public_tokens);
                if !hits.is_empty() {
                    rep.violation(&format!("debug-redaction / {name} leaks {}", hits[0].split(' ').take(2).collect::<Vec<_>>().join(" ")),
                        &format!("{fmt} of {name} contains private data: {}", hits.iter().take(4).cloned().collect::<Vec<_>>().join("; ")),
                        json!({"type": name, "format": fmt, "hits": hits, "dump": dump.chars().take(1500).collect::<String>()}));
                }
                if i == 0 {
                    rep.sample(json!({"type": name, "format": fmt, "dump_prefix": dump.chars().take(200).collect::<String>()}));
                }
            }
        }
        // shape-inconsistent private inputs (the fields are independent public vectors; such values are exactly the ones that
        // end up Debug-printed in error contexts): positions missing / short / long, siblings short, and the hex flag
        if i % 3 == 0 {
            let saved_pos = hc.inputs.private.zk_merkle_positions.clone();
            let saved_sib = hc.inputs.private.zk_merkle_siblings.clone();
            let d = saved_pos.len();
            let mut long_pos = saved_pos.clone();
            long_pos.push(3);
            let variants: Vec<(&'static str, Vec<u8>, Vec<_>)> = vec![
                ("positions-empty", vec![], saved_sib.clone()),
                ("positions-one", saved_pos[..1.min(d)].to_vec(), saved_sib.clone()),
                ("positions-short", saved_pos[..d.saturating_sub(1)].to_vec(), saved_sib.clone()),
                ("positions-long", long_pos, saved_sib.clone()),
                ("siblings-one-level", saved_pos.clone(), saved_sib[..1.min(saved_sib.len())].to_vec()),
                ("siblings-short", saved_pos.clone(), saved_sib[..saved_sib.len().saturating_sub(1)].to_vec()),
            ];
            for (vname, pos, sib) in variants {
                hc.inputs.private.zk_merkle_positions = pos;
                hc.inputs.private.zk_merkle_siblings = sib;
                let dumps = [
                    ("{:?}", format!("{:?}", hc.inputs.private)),
                    ("{:#?}", format!("{:#?}", hc.inputs.private)),
                    ("{:x?}", format!("{:x?}", hc.inputs.private)),
                    ("{:?} (CircuitInputs)", format!("{:?}", hc.inputs)),
                    ("{:#?} (CircuitInputs)", format!("{:#?}", hc.inputs)),
                ];
                for (fmt, dump) in dumps.iter() {
                    rep.eval();
                    rep.nontrivial(&("shape", vname, *fmt, i));
                    rep.count("rendered:PrivateCircuitInputs(shape-inconsistent)");
                    let hits = search(dump, &nd, &public_tokens);
                    if !hits.is_empty() {
                        rep.violation(&format!("debug-redaction / PrivateCircuitInputs ({vname}) leaks {}", hits[0].split(' ').take(2).collect::<Vec<_>>().join(" ")),
                            &format!("{fmt} of private inputs whose path vectors are inconsistent ({vname}) contains private data: {}", hits.iter().take(4).cloned().collect::<Vec<_>>().join("; ")),
                            json!({"type": "PrivateCircuitInputs", "shape": vname, "format": fmt, "hits": hits, "dump": dump.chars().take(1500).collect::<String>()}));
                    }
                }
            }
            hc.inputs.private.zk_merkle_positions = saved_pos;
            hc.inputs.private.zk_merkle_siblings = saved_sib;
        }
    });
    rep.finish(ctx, ctx.tier.pick(1000, 20000))
}

// ---------------------------------------------------------------------------
// C33
// ---------------------------------------------------------------------------

fn fingerprint_bytes(b: &[u8]) -> u64 {
    use std::hash::{Hash, Hasher};
    let mut h = std::collections::hash_map::DefaultHasher::new();
    b.hash(&mut h);
    h.finish()
}

fn felts_le(v: &[F]) -> Vec<u8> {
    v.iter().flat_map(|x| u(*x).to_le_bytes()).collect()
}

fn pad_blocks(secret: &D4, tc: u64) -> Vec<Vec<u8>> {
    // the two documented upstream pad10_to_rate buffers (input || 1, zero-filled to a multiple of 8 felts)
    let mut a = enc4(b"~nullif~");
    a.extend_from_slice(secret);
    a.push(f(tc >> 32));
    a.push(f(tc & 0xFFFF_FFFF));
    a.push(F::ONE);
    while a.len() % 8 != 0 {
        a.push(F::ZERO);
    }
    let mut b = enc4(b"wormhole");
    b.extend_from_slice(secret);
    b.push(F::ONE);
    while b.len() % 8 != 0 {
        b.push(F::ZERO);
    }
    vec![felts_le(&a), felts_le(&b)]
}

pub fn run_c33(ctx: &Ctx) -> i32 {
    let rule = "case = random call sequence over the secret-handling API (Secret::new/From/TryFrom/expose_*, Nullifier and UnspendableAccount constructors, from_preimage/from_secret hashing, to/from_bytes, to/from_field_elements, \
        From<&CircuitInputs>, boxed and unboxed drops in random order) for a random or patterned canonical secret; the harness allocator scans every block at dealloc and at (emulated moving) realloc for the secret's limbs; \
        non-trivial = sequence in which >=1 heap block was scanned while the secret was live; distinct by (secret, op sequence)";
    let rep = Report::new("C33", "exploration", rule);
    rep.assume("every realloc is treated as moving (alloc+copy+free): a buffer that is grown while it holds the secret counts as freed unscrubbed, as the repository's own comments state");
    rep.assume("exempt: blocks byte-identical to the two documented upstream pad10_to_rate buffers, rebuilt per secret by the harness");
    rep.assume("verdict rule: violation = freed non-exempt block containing the 32-byte secret contiguously or >= 2 of its limbs; single-limb sightings are logged only");
    let n = ctx.tier.pick(800usize, 400_000);
    (0..n).into_par_iter().for_each(|i| {
        if i % 32 == 0 && ctx.over_budget() {
            return;
        }
        let mut rng = ctx.sub_rng("c33", i as u64);
        // secret with four distinct high-entropy limbs (or a pattern)
        let secret: D4 = if i % 9 == 0 {
            let b = *b"wormhole-zeroize-regression-pat!";
            crate::realleaf::bytes_d4(&b)
        } else {
            loop {
                let s = rand_d4(&mut rng);
                let l: HashSet<u64> = s.iter().map(|x| u(*x)).collect();
                if l.len() == 4 && s.iter().all(|x| u(*x) > (1 << 40) && u(*x) < P) {
                    break s;
                }
            }
        };
        let sbytes = d4_bytes(&secret);
        let sbd = BytesDigest::try_from(sbytes).unwrap();
        let tc: u64 = rng.gen();
        let pads = pad_blocks(&secret, tc);
        let nops = rng.gen_range(4..24usize);
        let ops: Vec<u8> = (0..nops).map(|_| rng.gen_range(0..22u8)).collect();
        let hd = rng.gen_range(0..3usize);
        let hc = honest_inputs(&mut rng, hd, false, false);
        let limbs = [u(secret[0]), u(secret[1]), u(secret[2]), u(secret[3])];
        let mut caller_buffer_not_zeroed = false;
        heapmon::start_scan(limbs);
        {
            // typed pools of boxed values: a Box<T> block holds exactly the bytes of T, so nothing but the
            // library's own Drop/zeroize decides what is left in a freed block (no enum padding, no Vec moves of secrets)
            let other = BytesDigest::try_from([0x11u8; 32]).unwrap();
            let mut secs: Vec<Box<Secret>> = Vec::with_capacity(64);
            let mut nuls: Vec<Box<Nullifier>> = Vec::with_capacity(64);
            let mut uas: Vec<Box<UnspendableAccount>> = Vec::with_capacity(64);
            let mut bytes: Vec<zeroize::Zeroizing<Vec<u8>>> = Vec::with_capacity(64);
            let mut felts: Vec<wormhole_circuit::sensitive::SensitiveFelts> = Vec::with_capacity(64);
            let mut inputs: Vec<Box<CircuitInputs>> = Vec::with_capacity(16);
            for &op in &ops {
                match op {
                    0 => {
                        let mut buf = sbytes;
                        let r = Secret::new(&mut buf);
                        if buf != [0u8; 32] {
                            caller_buffer_not_zeroed = true;
                        }
                        if let Ok(s) = r {
                            secs.push(Box::new(s));
                        }
                    }
                    1 => {
                        // invalid buffer: first limb = p (non canonical) but the other limbs carry the secret
                        // invalid buffer: one limb (any position) is non canonical, the others carry the secret
                        let mut buf = sbytes;
                        let bad = rng.gen_range(0..4usize);
                        let badv = *[P, P + 1, u64::MAX].get(rng.gen_range(0..3)).unwrap();
                        buf[bad * 8..bad * 8 + 8].copy_from_slice(&badv.to_le_bytes());
                        let r = Secret::new(&mut buf);
                        if buf != [0u8; 32] || r.is_ok() {
                            caller_buffer_not_zeroed = true;
                        }
                        // heap-resident caller buffer: freeing it afterwards is scanned by the allocator as well
                        let mut hb: Box<[u8; 32]> = Box::new(sbytes);
                        hb[bad * 8..bad * 8 + 8].copy_from_slice(&badv.to_le_bytes());
                        let _ = Secret::new(&mut hb);
                        if *hb != [0u8; 32] {
                            caller_buffer_not_zeroed = true;
                        }
                        drop(hb);
                    }
                    2 => secs.push(Box::new(Secret::from(sbd))),
                    3 => secs.push(Box::new(Secret::from(secret))),
                    4 => {
                        if let Ok(s) = Secret::try_from(sbytes) {
                            secs.push(Box::new(s));
                        }
                    }
                    5 => nuls.push(Box::new(Nullifier::from_preimage(sbd, tc))),
                    6 => nuls.push(Box::new(Nullifier::new(other, sbd, tc))),
                    7 => uas.push(Box::new(UnspendableAccount::from_secret(sbd))),
                    8 => uas.push(Box::new(UnspendableAccount::new(other, sbd))),
                    9 => {
                        if let Some(nl) = nuls.last() {
                            let b = nl.to_bytes();
                            if let Ok(n2) = Nullifier::from_bytes(b.as_ref()) {
                                nuls.push(Box::new(n2));
                            }
                            bytes.push(b);
                        }
                    }
                    10 => {
                        if let Some(nl) = nuls.first() {
                            let fe = nl.to_field_elements();
                            if let Ok(n2) = Nullifier::from_field_elements(fe.as_slice()) {
                                nuls.push(Box::new(n2));
                            }
                            felts.push(fe);
                        }
                    }
                    11 => {
                        if let Some(a) = uas.last() {
                            let b = a.to_bytes();
                            if let Ok(a2) = UnspendableAccount::from_bytes(b.as_ref()) {
                                uas.push(Box::new(a2));
                            }
                            bytes.push(b);
                        }
                    }
                    12 => {
                        if let Some(a) = uas.first() {
                            let fe = a.to_field_elements();
                            if let Ok(a2) = UnspendableAccount::from_field_elements(fe.as_slice()) {
                                uas.push(Box::new(a2));
                            }
                            felts.push(fe);
                        }
                    }
                    13 => {
                        // CircuitInputs holding the secret + From<&CircuitInputs>
                        let mut ci = Box::new(honest_inputs(&mut rng, 0, true, false).inputs);
                        ci.private.secret = Secret::from(sbd);
                        ci.private.transfer_count = tc;
                        nuls.push(Box::new(Nullifier::from(&*ci)));
                        uas.push(Box::new(UnspendableAccount::from(&*ci)));
                        inputs.push(ci);
                    }
                    14 => {
                        if let Some(s) = secs.last() {
                            let d = s.expose_digest();
                            let fe = s.expose_felts();
                            secs.push(Box::new(Secret::from(d)));
                            secs.push(Box::new(Secret::from(fe)));
                        }
                    }
                    15 | 16 | 17 => {
                        // drop something, in random order across pools
                        match rng.gen_range(0..6) {
                            0 if !secs.is_empty() => drop(secs.swap_remove(rng.gen_range(0..secs.len()))),
                            1 if !nuls.is_empty() => drop(nuls.swap_remove(rng.gen_range(0..nuls.len()))),
                            2 if !uas.is_empty() => drop(uas.swap_remove(rng.gen_range(0..uas.len()))),
                            3 if !bytes.is_empty() => drop(bytes.swap_remove(rng.gen_range(0..bytes.len()))),
                            4 if !felts.is_empty() => drop(felts.swap_remove(rng.gen_range(0..felts.len()))),
                            5 if !inputs.is_empty() => drop(inputs.swap_remove(rng.gen_range(0..inputs.len()))),
                            _ => {}
                        }
                    }
                    18 => {
                        // malformed deserialisations must not leak either
                        let mut b = vec![0u8; 72];
                        b[32..64].copy_from_slice(&sbytes);
                        let _ = Nullifier::from_bytes(&b[..71]);
                        let _ = UnspendableAccount::from_bytes(&b[..63]);
                        zeroize::Zeroize::zeroize(&mut b);
                    }
                    20 => {
                        // the public wrapper itself, handed a secret-bearing buffer that follows the documented contract
                        // ("reserve the full capacity up front, never grow afterwards") but has spare capacity
                        let cap = [8usize, 16, 7, 32][(tc % 4) as usize];
                        let mut v: Vec<F> = Vec::with_capacity(cap);
                        v.extend_from_slice(&[crate::cso::f(1), crate::cso::f(2), crate::cso::f(3)]);
                        v.extend_from_slice(&secret);
                        let sf = wormhole_circuit::sensitive::SensitiveFelts::new(v);
                        if tc % 2 == 0 {
                            felts.push(sf);
                        } else {
                            drop(sf);
                        }
                    }
                    19 => {
                        // unboxed temporaries: constructed and dropped on the stack
                        let n1 = Nullifier::from_preimage(sbd, tc);
                        let a1 = UnspendableAccount::from_secret(sbd);
                        let fe = n1.to_field_elements();
                        drop(a1);
                        drop(fe);
                        drop(n1);
                    }
                    _ => {}
                }
            }
            let _ = &hc;
        }
        let (findings, scanned) = heapmon::stop_scan();
        let exempt_blocks: Vec<(usize, u64)> = pads.iter().map(|p| (p.len(), fingerprint_bytes(p))).collect();
        let mut pads = pads;
        for p in pads.iter_mut() {
            zeroize::Zeroize::zeroize(p);
        }
        rep.eval();
        if scanned > 0 {
            rep.nontrivial(&(limbs, &ops));
        }
        rep.add("blocks_scanned", scanned);
        if caller_buffer_not_zeroed {
            rep.violation("scrub / Secret::new leaves the caller buffer", "Secret::new did not zero the caller's buffer (or accepted a non-canonical value)", json!({"ops": ops}));
        }
        for fd in findings {
            let exempt = exempt_blocks.iter().any(|(len, fp)| fd.size == *len && fingerprint_bytes(&fd.block) == *fp);
            if exempt {
                rep.count("exempt_upstream_pad_block_freed");
                continue;
            }
            if fd.contiguous32 || fd.limbs_found >= 2 {
                let site = fd.backtrace.split(" <- ").find(|l| l.contains("wormhole_circuit") || l.contains("zk_circuits_common") || l.contains("qp_wormhole")).unwrap_or("unknown frame").to_string();
                let site_short: String = site.split("::h").next().unwrap_or(&site).chars().take(120).collect();
                rep.violation(&format!("scrub / block freed with secret / {}", site_short.trim()),
                    &format!("a {}-byte heap block holding {} limb(s) of the secret (contiguous 32 bytes: {}) was {} unscrubbed", fd.size, fd.limbs_found, fd.contiguous32, if fd.via_realloc {"reallocated (old block freed)"} else {"freed"}),
                    json!({"ops": ops, "size": fd.size, "limbs_found": fd.limbs_found, "contiguous32": fd.contiguous32, "via_realloc": fd.via_realloc, "backtrace": fd.backtrace}));
            } else {
                rep.count("single_limb_sightings(observation only)");
                rep.note(&format!("single-limb sighting in a freed {}-byte block: {}", fd.size, fd.backtrace.chars().take(300).collect::<String>()));
            }
        }
        if i < 2 {
            rep.sample(json!({"secret_limbs": limbs, "ops": ops, "blocks_scanned": scanned}));
        }
    });
    rep.finish(ctx, ctx.tier.pick(300, 5000))
}
