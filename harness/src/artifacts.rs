//! C16 (padding templates), C17 (artifact loaders), C18 (aggregator address binding):
//! the real constructors / loaders / build steps driven over generated artifact directories.

use crate::cso::{f, u};
use crate::heapmon;
use crate::leaf::{rand_d4, BaselineOpts, LeafAsg, LeafCircuit, D4, P};
use crate::realleaf::d4_bytes;
use crate::util::{Ctx, Report, Scratch};
use crate::wrap::*;
use plonky2::field::types::Field;
use plonky2::plonk::proof::ProofWithPublicInputs;
use plonky2::util::serialization::DefaultGateSerializer;
use qp_wormhole_inputs::BytesDigest;
use rand::Rng;
use rayon::prelude::*;
use serde_json::json;
use std::panic::{catch_unwind, AssertUnwindSafe};
use std::path::{Path, PathBuf};
use wormhole_aggregator::aggregator::PublicBatchAggregator;
use wormhole_aggregator::common::utils::{
    load_canonical_leaf_verifier_data, load_canonical_private_batch_verifier_data, load_verifier_data_from_bytes, read_artifact_file,
};
use wormhole_aggregator::private_batch::circuit::build::generate_private_batch_circuit_binaries;
use wormhole_aggregator::private_batch::prover::PrivateBatchProver;
use wormhole_aggregator::public_batch::circuit::generate_public_batch_circuit_binaries;
use wormhole_aggregator::public_batch::prover::PublicBatchProver;
use wormhole_verifier::WormholeVerifier;
use zk_circuits_common::circuit::{wormhole_private_batch_circuit_config, wormhole_public_batch_circuit_config, C, D, F};

type Proof = ProofWithPublicInputs<F, C, D>;

fn guarded<T>(fun: impl FnOnce() -> T) -> Result<T, String> {
    catch_unwind(AssertUnwindSafe(fun)).map_err(|e| {
        if let Some(s) = e.downcast_ref::<&str>() {
            s.to_string()
        } else if let Some(s) = e.downcast_ref::<String>() {
            s.clone()
        } else {
            "panic".to_string()
        }
    })
}

pub const FILES: [&str; 9] = [
    "common.bin",
    "verifier.bin",
    "dummy_proof.bin",
    "private_batch_common.bin",
    "private_batch_verifier.bin",
    "dummy_private_batch_proof.bin",
    "public_batch_common.bin",
    "public_batch_verifier.bin",
    "config.json",
];

pub struct Bins {
    pub scratch: Scratch,
    pub dir: PathBuf,
    pub n: usize,
    pub m: usize,
}

impl Bins {
    pub fn generate(n: usize, m: usize) -> anyhow::Result<Self> {
        let scratch = Scratch::new("bins");
        let dir = scratch.path().join("bins");
        wormhole_circuit_builder::generate_all_circuit_binaries(&dir, true, n, Some(m))?;
        Ok(Self { scratch, dir, n, m })
    }
    pub fn read(&self, name: &str) -> Vec<u8> {
        std::fs::read(self.dir.join(name)).unwrap_or_default()
    }
    /// copy of the directory with some files replaced
    pub fn variant(&self, tag: &str, replace: &[(&str, Vec<u8>)]) -> PathBuf {
        let d = self.scratch.path().join(format!("v-{tag}-{}", rand::random::<u64>()));
        std::fs::create_dir_all(&d).unwrap();
        for fname in FILES {
            let src = self.dir.join(fname);
            if src.exists() {
                std::fs::copy(&src, d.join(fname)).unwrap();
            }
        }
        for (name, bytes) in replace {
            std::fs::write(d.join(name), bytes).unwrap();
        }
        d
    }
}

fn mutate_bytes(rng: &mut impl Rng, canon: &[u8]) -> (Vec<u8>, String) {
    let mut b = canon.to_vec();
    match rng.gen_range(0..7) {
        0 | 1 | 2 => {
            let i = rng.gen_range(0..b.len());
            let bit = rng.gen_range(0..8);
            b[i] ^= 1 << bit;
            (b, format!("bit flip byte {i} bit {bit}"))
        }
        3 => {
            let k = rng.gen_range(1..=64usize.min(b.len()));
            b.truncate(b.len() - k);
            (b, format!("truncated by {k}"))
        }
        4 => {
            let k = rng.gen_range(1..=64usize);
            for _ in 0..k {
                b.push(if rng.gen_bool(0.5) { 0 } else { rng.gen() });
            }
            (b, format!("extended by {k}"))
        }
        5 => (vec![], "empty".into()),
        _ => {
            let i = rng.gen_range(0..b.len());
            b[i] = b[i].wrapping_add(1);
            (b, format!("byte {i} incremented"))
        }
    }
}

fn sparse_file(path: &Path, len: u64) {
    let fh = std::fs::File::create(path).unwrap();
    fh.set_len(len).unwrap();
}

// ---------------------------------------------------------------------------
// C17
// ---------------------------------------------------------------------------

pub fn run_c17(ctx: &Ctx) -> i32 {
    let rule = "case = (loader, artifact bytes / directory): canonical artifacts produced by the repository's generate_all_circuit_binaries, every single-bit flip of the leaf artifacts through the keccak-pinned loader, sampled flips / truncations / extensions / empty / other-shape artifacts through every other loader, \
        sparse oversized files and slices, and directories with planted prover artifacts watched by inotify; oracle: Ok <=> bytes are the canonical rebuild (public batch: semantically), oversize => Err with < 1 MiB allocated, planted prover artifacts are never opened; \
        non-trivial = every (loader, mutated artifact) pair; distinct by (loader, mutation)";
    let rep = Report::new("C17", "exploration", rule);
    rep.assume("canonical = what the repository's own generate_all_circuit_binaries produces for the shape in this run (N=1, M=2), cross-checked against a fresh rebuild in the harness");
    let bins = match Bins::generate(1, 2) {
        Ok(b) => b,
        Err(e) => {
            rep.inconclusive(&format!("generate_all_circuit_binaries failed on the unchanged configuration: {e}"));
            return rep.finish(ctx, 1);
        }
    };
    let (cb, vb) = (bins.read("common.bin"), bins.read("verifier.bin"));
    // canonical cross-check against a fresh rebuild
    if let Ok(lc) = LeafCircuit::build() {
        let rb_v = lc.cso.data.verifier_only.to_bytes().unwrap_or_default();
        let rb_c = lc.cso.data.common.to_bytes(&DefaultGateSerializer).unwrap_or_default();
        if rb_v != vb || rb_c != cb {
            rep.violation("artifact / generated leaf artifacts differ from a fresh rebuild", "common.bin / verifier.bin written by generate_all_circuit_binaries are not the serialisation of a fresh leaf circuit rebuild", json!({}));
        }
    }
    // (a) keccak-pinned leaf loader: exhaustive bit flips
    match guarded(|| WormholeVerifier::new_from_bytes(&vb, &cb)) {
        Ok(Ok(_)) => rep.count("leaf_keccak_loader_accepts_canonical"),
        other => rep.violation("artifact / pinned leaf loader rejects canonical artifacts", &format!("WormholeVerifier::new_from_bytes rejects the canonical leaf artifacts: {:?}", other.map(|r| r.map(|_| ()).map_err(|e| e.to_string()))), json!({})),
    }
    let vstride = 1usize;
    let cstride = ctx.tier.pick(5usize, 1);
    let flips: Vec<(bool, usize)> = (0..vb.len() * 8).step_by(vstride).map(|i| (true, i)).chain((0..cb.len() * 8).skip((ctx.seed as usize) % cstride).step_by(cstride).map(|i| (false, i))).collect();
    rep.set_extra("leaf_bit_flips", json!({"verifier_bits": vb.len() * 8, "common_bits": cb.len() * 8, "common_stride": cstride, "exhaustive": cstride == 1}));
    flips.par_iter().for_each(|&(is_v, bit)| {
        let mut v = vb.clone();
        let mut c = cb.clone();
        if is_v {
            v[bit / 8] ^= 1 << (bit % 8);
        } else {
            c[bit / 8] ^= 1 << (bit % 8);
        }
        rep.eval();
        rep.nontrivial(&("flip", is_v, bit));
        match guarded(|| WormholeVerifier::new_from_bytes(&v, &c)) {
            Err(p) => rep.violation("artifact / pinned leaf loader panics", &format!("panic on a bit-flipped artifact: {p}"), json!({"verifier": is_v, "bit": bit})),
            Ok(Ok(_)) => rep.violation("artifact / pinned leaf loader accepts a modified artifact", &format!("WormholeVerifier::new_from_bytes accepted {} with bit {bit} flipped", if is_v {"verifier.bin"} else {"common.bin"}), json!({"verifier": is_v, "bit": bit})),
            Ok(Err(_)) => {}
        }
    });
    // (b) every byte-level loader with sampled mutations
    let lc_data = wormhole_aggregator::common::utils::canonical_leaf_verifier_data();
    let (pcb, pvb) = (bins.read("private_batch_common.bin"), bins.read("private_batch_verifier.bin"));
    let (qcb, qvb) = (bins.read("public_batch_common.bin"), bins.read("public_batch_verifier.bin"));
    let dummy_leaf = bins.read("dummy_proof.bin");
    let dummy_pb = bins.read("dummy_private_batch_proof.bin");
    // canonical controls
    let controls: Vec<(&str, Box<dyn Fn() -> bool + Sync>)> = vec![
        ("load_canonical_leaf_verifier_data", Box::new(|| load_canonical_leaf_verifier_data(&cb, &vb).is_ok())),
        ("load_canonical_private_batch_verifier_data", Box::new(|| load_canonical_private_batch_verifier_data(&pcb, &pvb, &lc_data, 1).is_ok())),
        ("PrivateBatchProver::new_from_bytes", Box::new(|| PrivateBatchProver::new_from_bytes(&cb, &vb, &dummy_leaf, 1).is_ok())),
        ("PrivateBatchProver::new_from_binaries_dir", Box::new(|| PrivateBatchProver::new_from_binaries_dir(&bins.dir).is_ok())),
        ("PublicBatchProver::new_from_bytes", Box::new(|| PublicBatchProver::new_from_bytes(&pcb, &pvb, &dummy_pb, (1, 2)).is_ok())),
        ("PublicBatchProver::new_from_binaries_dir", Box::new(|| PublicBatchProver::new_from_binaries_dir(&bins.dir).is_ok())),
        ("PublicBatchAggregator::new", Box::new(|| PublicBatchAggregator::new(&bins.dir, BytesDigest::default()).is_ok())),
        ("WormholeVerifier::new_from_files", Box::new(|| WormholeVerifier::new_from_files(&bins.dir.join("verifier.bin"), &bins.dir.join("common.bin")).is_ok())),
    ];
    controls.par_iter().for_each(|(name, fun)| {
        rep.eval();
        rep.nontrivial(&("control", *name));
        match guarded(|| fun()) {
            Ok(true) => rep.count("canonical_accepted"),
            Ok(false) => rep.violation(&format!("artifact / {name} rejects canonical artifacts"), &format!("{name} rejects the canonical artifact set"), json!({"loader": name})),
            Err(p) => rep.violation(&format!("artifact / {name} panics"), &format!("{name} panicked on canonical artifacts: {p}"), json!({"loader": name})),
        }
    });
    // mutated artifacts: (loader name, which file, runner)
    #[derive(Clone, Copy)]
    enum Which { LeafCommon, LeafVerifier, PbCommon, PbVerifier, QCommon, QVerifier }
    let sample = ctx.tier.pick(1usize, 12);
    let mut jobs: Vec<(usize, Which, u64)> = vec![];
    for loader in 0..9usize {
        let whiches: Vec<Which> = match loader {
            0 | 1 | 2 | 6 => vec![Which::LeafCommon, Which::LeafVerifier],
            3 | 4 | 5 | 7 => vec![Which::PbCommon, Which::PbVerifier],
            _ => vec![Which::QCommon, Which::QVerifier],
        };
        for w in whiches {
            let reps = if loader == 0 { ctx.tier.pick(60, 400) } else { sample };
            for k in 0..reps {
                jobs.push((loader, w, k as u64));
            }
        }
    }
    jobs.par_iter().for_each(|&(loader, which, k)| {
        if ctx.over_budget() {
            return;
        }
        let mut rng = ctx.sub_rng("mut", (loader as u64) << 32 | (which as u64) << 16 | k);
        let canon: &Vec<u8> = match which { Which::LeafCommon => &cb, Which::LeafVerifier => &vb, Which::PbCommon => &pcb, Which::PbVerifier => &pvb, Which::QCommon => &qcb, Which::QVerifier => &qvb };
        let (mutated, desc) = mutate_bytes(&mut rng, canon);
        if &mutated == canon {
            return;
        }
        let fname = match which { Which::LeafCommon => "common.bin", Which::LeafVerifier => "verifier.bin", Which::PbCommon => "private_batch_common.bin", Which::PbVerifier => "private_batch_verifier.bin", Which::QCommon => "public_batch_common.bin", Which::QVerifier => "public_batch_verifier.bin" };
        let pick = |w2: Which, orig: &Vec<u8>| -> Vec<u8> { if (w2 as u8) == (which as u8) { mutated.clone() } else { orig.clone() } };
        let (c2, v2) = (pick(Which::LeafCommon, &cb), pick(Which::LeafVerifier, &vb));
        let (pc2, pv2) = (pick(Which::PbCommon, &pcb), pick(Which::PbVerifier, &pvb));
        let name = ["load_canonical_leaf_verifier_data", "PrivateBatchProver::new_from_bytes", "PrivateBatchProver::new_from_binaries_dir", "load_canonical_private_batch_verifier_data", "PublicBatchProver::new_from_bytes",
            "PublicBatchProver::new_from_binaries_dir", "generate_private_batch_circuit_binaries", "generate_public_batch_circuit_binaries", "PublicBatchAggregator::new(public artifacts)"][loader];
        rep.eval();
        rep.nontrivial(&(name, fname, desc.clone()));
        rep.count(&format!("loader:{name}"));
        let r = guarded(|| -> Result<bool, String> {
            Ok(match loader {
                0 => load_canonical_leaf_verifier_data(&c2, &v2).is_ok(),
                1 => PrivateBatchProver::new_from_bytes(&c2, &v2, &dummy_leaf, 1).is_ok(),
                2 => PrivateBatchProver::new_from_binaries_dir(&bins.variant("pdir", &[(fname, mutated.clone())])).is_ok(),
                3 => load_canonical_private_batch_verifier_data(&pc2, &pv2, &lc_data, 1).is_ok(),
                4 => PublicBatchProver::new_from_bytes(&pc2, &pv2, &dummy_pb, (1, 2)).is_ok(),
                5 => PublicBatchProver::new_from_binaries_dir(&bins.variant("qdir", &[(fname, mutated.clone())])).is_ok(),
                6 => {
                    let d = bins.variant("gpriv", &[(fname, mutated.clone())]);
                    let before = std::fs::read(d.join("private_batch_common.bin")).unwrap_or_default();
                    let ok = generate_private_batch_circuit_binaries(&d, 1, false).is_ok();
                    if !ok && std::fs::read(d.join("private_batch_common.bin")).unwrap_or_default() != before {
                        return Err("a failed private-batch build modified published artifacts".into());
                    }
                    ok
                }
                7 => {
                    let d = bins.variant("gpub", &[(fname, mutated.clone())]);
                    let before = std::fs::read(d.join("public_batch_common.bin")).unwrap_or_default();
                    let ok = generate_public_batch_circuit_binaries(&d, 2, 1).is_ok();
                    if !ok && std::fs::read(d.join("public_batch_common.bin")).unwrap_or_default() != before {
                        return Err("a failed public-batch build modified published artifacts".into());
                    }
                    ok
                }
                _ => {
                    // semantic pin: Ok is allowed only if the mutated bytes deserialise to data whose re-serialisation is canonical
                    let d = bins.variant("agg", &[(fname, mutated.clone())]);
                    let ok = PublicBatchAggregator::new(&d, BytesDigest::default()).is_ok();
                    if ok {
                        let (qc2, qv2) = (pick(Which::QCommon, &qcb), pick(Which::QVerifier, &qvb));
                        let sem = load_verifier_data_from_bytes(&qc2, &qv2, "public_batch").ok().map(|vd| {
                            vd.common.to_bytes(&DefaultGateSerializer).ok() == Some(qcb.clone()) && vd.verifier_only.to_bytes().ok() == Some(qvb.clone())
                        });
                        if sem == Some(true) {
                            return Ok(false); // semantically identical: acceptance is allowed, treat as "not a modified artifact"
                        }
                    }
                    ok
                }
            })
        });
        match r {
            Err(p) => rep.violation(&format!("artifact / {name} panics"), &format!("{name} panicked on {fname} ({desc}): {p}"), json!({"loader": name, "file": fname, "mutation": desc})),
            Ok(Err(msg)) => rep.violation(&format!("artifact / {name} side effect"), &msg, json!({"loader": name, "file": fname, "mutation": desc})),
            Ok(Ok(true)) => rep.violation(&format!("artifact / {name} accepts a modified artifact"), &format!("{name} accepted {fname} with mutation: {desc}"), json!({"loader": name, "file": fname, "mutation": desc})),
            Ok(Ok(false)) => {}
        }
    });
    // canonical-for-another-shape
    {
        rep.eval();
        rep.nontrivial(&"other-shape");
        let r = guarded(|| load_canonical_private_batch_verifier_data(&pcb, &pvb, &lc_data, 2).is_ok());
        if r != Ok(false) {
            rep.violation("artifact / other-shape artifacts accepted", "private-batch artifacts for N=1 were accepted as canonical for N=2", json!({}));
        }
        let r = guarded(|| PublicBatchProver::new_from_bytes(&pcb, &pvb, &dummy_pb, (2, 2)).is_ok());
        if r != Ok(false) {
            rep.violation("artifact / other-shape artifacts accepted", "PublicBatchProver::new_from_bytes accepted N=1 private-batch artifacts for num_leaf_proofs=2", json!({}));
        }
        // shape history in one process: after an aggregator for (N=1, M=2) was loaded, (a) the same directory relabelled
        // as M=1 or M=3 must be rejected, (b) genuine (N=1, M=1) artifacts must still be accepted, (c) then M=2 again
        {
            let relabel = |m: usize| bins.variant("relabel", &[("config.json", format!("{{\"num_leaf_proofs\":1,\"num_private_batch_proofs\":{m}}}").into_bytes())]);
            let first = guarded(|| PublicBatchAggregator::new(&bins.dir, BytesDigest::default()).is_ok());
            for m in [1usize, 3] {
                rep.eval();
                rep.nontrivial(&("relabel", m));
                let d = relabel(m);
                let r = guarded(|| (PublicBatchAggregator::new(&d, BytesDigest::default()).is_ok(), PublicBatchProver::new_from_binaries_dir(&d).is_ok()));
                match r {
                    Ok((false, _)) => rep.count("relabelled_directory_rejected"),
                    Ok((true, _)) => rep.violation("artifact / public-batch artifacts of another shape accepted", &format!("after loading shape (1,2), a directory with the same public-batch artifacts but config M={m} was accepted by the aggregator"), json!({"m": m})),
                    Err(p) => rep.violation("artifact / aggregator init panics", &p, json!({"m": m})),
                }
            }
            if let Ok(b1) = Bins::generate(1, 1) {
                rep.eval();
                rep.nontrivial(&"second-shape");
                let r1 = guarded(|| PublicBatchAggregator::new(&b1.dir, BytesDigest::default()).is_ok());
                let r2 = guarded(|| PublicBatchAggregator::new(&bins.dir, BytesDigest::default()).is_ok());
                if first != Ok(true) || r1 != Ok(true) || r2 != Ok(true) {
                    rep.violation("artifact / canonical artifacts rejected after another shape was loaded", &format!("loading canonical artifacts for shapes (1,2), (1,1), (1,2) in one process gave {first:?}, {r1:?}, {r2:?}"), json!({}));
                }
                // and the (1,1) public artifacts inside the (1,2) directory
                let d = bins.variant("mix", &[("public_batch_common.bin", b1.read("public_batch_common.bin")), ("public_batch_verifier.bin", b1.read("public_batch_verifier.bin"))]);
                if guarded(|| PublicBatchAggregator::new(&d, BytesDigest::default()).is_ok()) != Ok(false) {
                    rep.violation("artifact / public-batch artifacts of another shape accepted", "public-batch artifacts canonical for M=1 were accepted by an aggregator configured for M=2", json!({}));
                }
            } else {
                rep.note("could not generate a second artifact set (1,1)");
            }
        }
        // swapped files
        let r = guarded(|| WormholeVerifier::new_from_bytes(&cb, &vb).is_ok());
        if r != Ok(false) {
            rep.violation("artifact / swapped artifacts accepted", "WormholeVerifier::new_from_bytes accepted swapped common/verifier bytes", json!({}));
        }
    }
    // (c) oversized files and slices
    {
        let big = bins.scratch.path().join("oversize");
        std::fs::create_dir_all(&big).unwrap();
        let cap = wormhole_aggregator::common::utils::MAX_ARTIFACT_FILE_BYTES;
        let vcap = wormhole_verifier::MAX_VERIFIER_ARTIFACT_BYTES;
        let cases: Vec<(&str, u64, Box<dyn Fn(&Path) -> bool>)> = vec![
            ("read_artifact_file cap+1", cap + 1, Box::new(|p: &Path| read_artifact_file(p).is_ok())),
            ("read_artifact_file cap+2^20", cap + (1 << 20), Box::new(|p: &Path| read_artifact_file(p).is_ok())),
            ("WormholeVerifier::new_from_files verifier cap+1", vcap + 1, Box::new(|p: &Path| WormholeVerifier::new_from_files(p, &bins.dir.join("common.bin")).is_ok())),
            ("WormholeVerifier::new_from_files common cap+1", vcap + 1, Box::new(|p: &Path| WormholeVerifier::new_from_files(&bins.dir.join("verifier.bin"), p).is_ok())),
        ];
        for (name, len, fun) in cases {
            let path = big.join("blob.bin");
            sparse_file(&path, len);
            rep.eval();
            rep.nontrivial(&("oversize", name));
            let before = heapmon::thread_allocated();
            let r = guarded(|| fun(&path));
            let used = heapmon::thread_allocated() - before;
            match r {
                Ok(false) => {
                    if used > (1 << 20) {
                        rep.violation("artifact / oversized file read before rejection", &format!("{name}: {used} bytes allocated while rejecting a {len}-byte file"), json!({"case": name}));
                    }
                }
                Ok(true) => rep.violation("artifact / oversized file accepted", &format!("{name}: a {len}-byte file was accepted"), json!({"case": name})),
                Err(p) => rep.violation("artifact / loader panics on oversized file", &format!("{name}: {p}"), json!({"case": name})),
            }
        }
        // directory loaders with one oversized member they read: Err, and the member is never opened / read (inotify)
        let dir_cases: Vec<(&str, &str)> = vec![
            ("PrivateBatchProver::new_from_binaries_dir", "config.json"),
            ("PrivateBatchProver::new_from_binaries_dir", "common.bin"),
            ("PrivateBatchProver::new_from_binaries_dir", "dummy_proof.bin"),
            ("PublicBatchAggregator::new", "config.json"),
            ("PublicBatchAggregator::new", "private_batch_common.bin"),
            ("PublicBatchAggregator::new", "dummy_private_batch_proof.bin"),
            ("PublicBatchProver::new_from_binaries_dir", "private_batch_verifier.bin"),
        ];
        dir_cases.par_iter().for_each(|(loader, fname)| {
            if ctx.over_budget() {
                return;
            }
            let d = bins.variant("big", &[]);
            sparse_file(&d.join(fname), cap + 1);
            let watch = InotifyWatch::new(&[d.join(fname)]);
            rep.eval();
            rep.nontrivial(&("oversize-dir", *loader, *fname));
            let r = guarded(|| match *loader {
                "PrivateBatchProver::new_from_binaries_dir" => PrivateBatchProver::new_from_binaries_dir(&d).is_ok(),
                "PublicBatchAggregator::new" => PublicBatchAggregator::new(&d, BytesDigest::default()).is_ok(),
                _ => PublicBatchProver::new_from_binaries_dir(&d).is_ok(),
            });
            match r {
                Ok(false) => {
                    if let Some(w) = watch {
                        if !w.events().is_empty() {
                            rep.violation("artifact / oversized directory member opened", &format!("{loader} opened or read the oversized {fname} before rejecting it"), json!({"loader": loader, "file": fname}));
                        }
                        rep.count("oversize_members_watched");
                    }
                }
                Ok(true) => rep.violation("artifact / oversized directory member accepted", &format!("{loader} accepted a bins directory whose {fname} is {} bytes", cap + 1), json!({"loader": loader, "file": fname})),
                Err(p) => rep.violation("artifact / loader panics on oversized directory member", &p, json!({"loader": loader, "file": fname})),
            }
        });
        // slices above the verifier cap
        let big_slice = vec![0u8; vcap as usize + 1];
        rep.eval();
        let before = heapmon::thread_allocated();
        let r = guarded(|| WormholeVerifier::new_from_bytes(&big_slice, &cb).is_ok() || WormholeVerifier::new_from_bytes(&vb, &big_slice).is_ok());
        let used = heapmon::thread_allocated() - before;
        if r != Ok(false) || used > (1 << 20) {
            rep.violation("artifact / oversized slice", &format!("WormholeVerifier::new_from_bytes on a cap+1 slice: result {r:?}, {used} bytes allocated"), json!({}));
        }
    }
    // (d) planted prover artifacts are never opened (inotify)
    {
        let poison = ["prover.bin", "private_batch_prover.bin", "public_batch_prover.bin", "public_batch_prover_common.bin", "leaf_prover.bin"];
        let d = bins.variant("poison", &[]);
        for p in poison {
            std::fs::write(d.join(p), vec![0xA5u8; 4096]).unwrap();
        }
        let watch = InotifyWatch::new(&poison.iter().map(|p| d.join(p)).collect::<Vec<_>>());
        let r = guarded(|| {
            let a = PrivateBatchProver::new_from_binaries_dir(&d).is_ok();
            let b = PublicBatchProver::new_from_binaries_dir(&d).is_ok();
            let c = PublicBatchAggregator::new(&d, BytesDigest::default()).is_ok();
            let e = WormholeVerifier::new_from_files(&d.join("verifier.bin"), &d.join("common.bin")).is_ok();
            (a, b, c, e)
        });
        rep.eval();
        rep.nontrivial(&"poison-dir");
        match (&watch, r) {
            (Some(w), Ok((a, b, c, e))) => {
                let opened = w.events();
                rep.set_extra("poison_files_watched", json!(poison));
                if !opened.is_empty() {
                    rep.violation("artifact / prover artifact opened", &format!("loading a bins directory opened planted prover artifact(s): {opened:?}"), json!({"opened": opened}));
                }
                if !(a && b && c && e) {
                    rep.violation("artifact / extra files break loading", &format!("a canonical bins directory with extra files was rejected (private {a}, public {b}, aggregator {c}, verifier {e})"), json!({}));
                }
                rep.count("inotify_watch_active");
            }
            (None, _) => rep.note("inotify unavailable: 'no prover reads a prover artifact' sub-check skipped"),
            (_, Err(p)) => rep.violation("artifact / loader panics with extra files", &p, json!({})),
        }
        // positive control for the watch itself
        if let Some(w) = InotifyWatch::new(&[d.join("prover.bin")]) {
            let _ = std::fs::read(d.join("prover.bin"));
            if w.events().is_empty() {
                rep.inconclusive("inotify watch did not observe a deliberate read (monitor not working)");
            }
        }
    }
    rep.sample(json!({"loader": "WormholeVerifier::new_from_bytes", "mutation": "bit 0 of verifier.bin flipped", "expected": "Err"}));
    rep.sample(json!({"files": FILES, "sizes": FILES.iter().map(|f| bins.read(f).len()).collect::<Vec<_>>()}));
    rep.finish(ctx, ctx.tier.pick(200, 1000))
}

pub struct InotifyWatch {
    fd: i32,
    names: Vec<(i32, String)>,
}

impl InotifyWatch {
    pub fn new(paths: &[PathBuf]) -> Option<Self> {
        unsafe {
            let fd = libc::inotify_init1(libc::IN_NONBLOCK | libc::IN_CLOEXEC);
            if fd < 0 {
                return None;
            }
            let mut names = vec![];
            for p in paths {
                let c = std::ffi::CString::new(p.to_string_lossy().as_bytes()).ok()?;
                let wd = libc::inotify_add_watch(fd, c.as_ptr(), libc::IN_OPEN | libc::IN_ACCESS);
                if wd < 0 {
                    libc::close(fd);
                    return None;
                }
                names.push((wd, p.file_name().map(|x| x.to_string_lossy().to_string()).unwrap_or_default()));
            }
            Some(Self { fd, names })
        }
    }
    pub fn events(&self) -> Vec<String> {
        let mut out = vec![];
        let mut buf = [0u8; 4096];
        loop {
            let n = unsafe { libc::read(self.fd, buf.as_mut_ptr() as *mut libc::c_void, buf.len()) };
            if n <= 0 {
                break;
            }
            let mut off = 0usize;
            while off + std::mem::size_of::<libc::inotify_event>() <= n as usize {
                let ev: libc::inotify_event = unsafe { std::ptr::read_unaligned(buf.as_ptr().add(off) as *const libc::inotify_event) };
                if let Some((_, name)) = self.names.iter().find(|(wd, _)| *wd == ev.wd) {
                    if !out.contains(name) {
                        out.push(name.clone());
                    }
                }
                off += std::mem::size_of::<libc::inotify_event>() + ev.len as usize;
            }
        }
        out
    }
}

impl Drop for InotifyWatch {
    fn drop(&mut self) {
        unsafe {
            libc::close(self.fd);
        }
    }
}

// ---------------------------------------------------------------------------
// C16
// ---------------------------------------------------------------------------

fn real_leaf_proof(lc: &LeafCircuit, a: &LeafAsg) -> Option<Proof> {
    let (pre, pins) = lc.pins(a);
    let run = lc.cso.run(&pre, &pins, false);
    let (ok, p) = lc.cso.confirm(&run);
    if ok { p } else { None }
}

pub fn run_c16(ctx: &Ctx) -> i32 {
    let rule = "case = (entry point, padding template): templates deviating from the dummy sentinel in every public-input position (singly and in pairs), non-verifying templates, and real-circuit templates that deviate as far as the real leaf / private-batch circuit allows, \
        at the direct constructors, the byte / file / directory loaders, the artifact build step and aggregator init; oracle: a template with an incomplete sentinel or failing verification is rejected (and nothing is published), the canonical template is accepted; \
        non-trivial = every (entry point, template) pair; distinct by (entry point, deviation)";
    let rep = Report::new("C16", "exploration", rule);
    let sentinel_leaf: Vec<usize> = vec![0, 1, 2, 8, 9, 10, 11, 12, 13, 14, 15, 16, 17, 18, 19];
    // (a) direct constructor over a fake leaf: every position
    {
        let fake = FakeLeaf::build(LEAF_PI);
        let mut jobs: Vec<(Vec<(usize, u64)>, bool)> = vec![(vec![], false)];
        for pos in 0..21usize {
            for v in [1u64, (1 << 32) - 1, P - 1] {
                if (1..=3).contains(&pos) && v >= (1 << 32) {
                    continue; // the fake leaf range-checks these positions
                }
                jobs.push((vec![(pos, v)], false));
            }
        }
        let mut rng = ctx.rng("pairs");
        for _ in 0..ctx.tier.pick(6usize, 80) {
            let a = rng.gen_range(0..21usize);
            let b = rng.gen_range(0..21usize);
            jobs.push((vec![(a, 1), (b, 1)], false));
        }
        jobs.push((vec![(3, 5)], true)); // free position but tampered after proving
        jobs.push((vec![], true));
        jobs.par_iter().for_each(|(devs, tamper)| {
            if ctx.over_budget() {
                return;
            }
            let mut pis = vec![F::ZERO; 21];
            for (p, v) in devs {
                pis[*p] = f(*v);
            }
            let Ok(mut proof) = fake.prove(&pis) else { return };
            if *tamper {
                proof.public_inputs[20] += F::ONE;
            }
            let verifies = fake.data.verify(proof.clone()).is_ok();
            let jp: Vec<u64> = proof.public_inputs.iter().map(|x| u(*x)).collect();
            let sentinel_ok = sentinel_leaf.iter().all(|&i| jp[i] == 0);
            // values the u32 statement parser cannot represent make the template unparsable; that is a rejection too
            rep.eval();
            rep.nontrivial(&("leaf-direct", devs.clone(), *tamper));
            let r = guarded(|| PrivateBatchProver::new(wormhole_private_batch_circuit_config(), fake.data.common.clone(), &fake.data.verifier_only, 1, proof.clone()).is_ok());
            let case = json!({"entry": "PrivateBatchProver::new", "template_pis": jp, "tampered": tamper});
            match r {
                Err(p) => rep.violation("template / PrivateBatchProver::new panics", &p, case),
                Ok(true) => {
                    if !(sentinel_ok && verifies) {
                        rep.violation(&format!("template / leaf template accepted (sentinel_ok={sentinel_ok}, verifies={verifies})"),
                            &format!("PrivateBatchProver::new accepted a padding template with deviations {devs:?} (verifies: {verifies})"), case);
                    } else {
                        rep.count("leaf_templates_accepted");
                    }
                }
                Ok(false) => {
                    if sentinel_ok && verifies && jp[3] <= u32::MAX as u64 && jp[20] <= u32::MAX as u64 && jp[4..8].iter().all(|x| *x < P) {
                        rep.count("valid_template_with_free_fields_rejected(note)");
                        rep.note(&format!("a verifying template with complete sentinel and free fields {devs:?} was rejected"));
                    }
                    rep.count("leaf_templates_rejected");
                }
            }
        });
    }
    // (b) public prover over a fake inner (N=1,2[,3]): sentinel = block hash 3..7 and ALL 2N exit slots 8..8+10N
    for n in ctx.tier.pick(vec![1usize, 2], vec![1usize, 2, 3]) {
        let fake = FakeLeaf::build(priv_pi_len(n));
        let sentinel: Vec<usize> = (3..7).chain(8..8 + 10 * n).collect();
        let mut jobs: Vec<(Vec<(usize, u64)>, bool)> = vec![(vec![], false), (vec![], true)];
        for pos in 0..priv_pi_len(n) {
            for v in [1u64, P - 1] {
                if (1..=3).contains(&pos) && v >= (1 << 32) {
                    continue;
                }
                // larger shapes in the quick tier: every sentinel position once, other positions sampled
                if n >= 2 && ctx.tier == crate::util::Tier::Quick && (v != 1 || (!sentinel.contains(&pos) && pos % 4 != 0)) {
                    continue;
                }
                jobs.push((vec![(pos, v)], false));
            }
        }
        jobs.par_iter().for_each(|(devs, tamper)| {
            if ctx.over_budget() {
                return;
            }
            let mut pis = vec![F::ZERO; priv_pi_len(n)];
            pis[0] = f(2 * n as u64);
            for (p, v) in devs {
                pis[*p] = f(*v);
            }
            let Ok(mut proof) = fake.prove(&pis) else { return };
            if *tamper {
                proof.public_inputs[7] += F::ONE;
            }
            let verifies = fake.data.verify(proof.clone()).is_ok();
            let jp: Vec<u64> = proof.public_inputs.iter().map(|x| u(*x)).collect();
            let sentinel_ok = sentinel.iter().all(|&i| jp[i] == 0);
            rep.eval();
            rep.nontrivial(&("inner-direct", n, devs.clone(), *tamper));
            rep.count(&format!("inner_templates_judged_N{n}"));
            let r = guarded(|| PublicBatchProver::new(wormhole_public_batch_circuit_config(), fake.data.common.clone(), &fake.data.verifier_only, 2, n, proof.clone()).is_ok());
            let case = json!({"entry": "PublicBatchProver::new", "n": n, "template_pis": jp, "tampered": tamper});
            match r {
                Err(p) => rep.violation("template / PublicBatchProver::new panics", &p, case),
                Ok(true) => {
                    if !(sentinel_ok && verifies) {
                        rep.violation(&format!("template / private-batch template accepted (sentinel_ok={sentinel_ok}, verifies={verifies})"),
                            &format!("PublicBatchProver::new accepted a padding template with deviations {devs:?} (verifies: {verifies})"), case);
                    } else {
                        rep.count("inner_templates_accepted");
                    }
                }
                Ok(false) => rep.count("inner_templates_rejected"),
            }
        });
    }
    // (c) canonical-pinned entry points with real-circuit templates
    let bins = match Bins::generate(1, 2) {
        Ok(b) => b,
        Err(e) => {
            rep.inconclusive(&format!("generate_all_circuit_binaries failed: {e}"));
            return rep.finish(ctx, 1);
        }
    };
    let lc = match LeafCircuit::build() {
        Ok(x) => x,
        Err(e) => {
            rep.inconclusive(&format!("leaf circuit did not build: {e}"));
            return rep.finish(ctx, 1);
        }
    };
    let mut rng = ctx.rng("templates");
    let (cb, vb) = (bins.read("common.bin"), bins.read("verifier.bin"));
    let canonical_dummy = bins.read("dummy_proof.bin");
    let mut templates: Vec<(&'static str, Vec<u8>, bool)> = vec![("canonical dummy", canonical_dummy.clone(), true)];
    {
        let mut d = LeafAsg::baseline(&mut rng, &BaselineOpts { depth: 0, dummy: true });
        d.asset = F::ZERO;
        d.exit1 = [F::ZERO; 4];
        d.exit2 = [F::ZERO; 4];
        d.recompute(true);
        if let Some(p) = real_leaf_proof(&lc, &d) {
            templates.push(("fresh dummy with zero asset and zero exits", p.to_bytes(), true));
        }
        let mut a = d.clone();
        a.asset = f(7);
        a.recompute(true);
        if let Some(p) = real_leaf_proof(&lc, &a) {
            templates.push(("dummy with asset 7", p.to_bytes(), false));
        }
        let mut a = d.clone();
        a.exit1 = rand_d4(&mut rng);
        if let Some(p) = real_leaf_proof(&lc, &a) {
            templates.push(("dummy with non-zero exit account 1", p.to_bytes(), false));
        }
        let mut a = d.clone();
        a.exit2[3] = F::ONE;
        if let Some(p) = real_leaf_proof(&lc, &a) {
            templates.push(("dummy with one non-zero limb in exit account 2", p.to_bytes(), false));
        }
        let mut r = LeafAsg::baseline(&mut rng, &BaselineOpts { depth: 2, dummy: false });
        r.asset = F::ZERO;
        r.recompute(false);
        if let Some(p) = real_leaf_proof(&lc, &r) {
            templates.push(("real (non-dummy) leaf proof", p.to_bytes(), false));
        }
        let mut r0 = r.clone();
        r0.out1 = F::ZERO;
        r0.out2 = F::ZERO;
        r0.exit1 = [F::ZERO; 4];
        r0.exit2 = [F::ZERO; 4];
        r0.recompute(false);
        if let Some(p) = real_leaf_proof(&lc, &r0) {
            templates.push(("real block hash with zero outputs and exits", p.to_bytes(), false));
        }
        let mut t = canonical_dummy.clone();
        let l = t.len();
        t[l / 2] ^= 0x10;
        templates.push(("canonical dummy with a flipped byte in the proof body", t, false));
        templates.push(("truncated canonical dummy", canonical_dummy[..canonical_dummy.len() - 9].to_vec(), false));
        templates.push(("empty", vec![], false));
    }
    rep.set_extra("real_leaf_templates", json!(templates.iter().map(|t| t.0).collect::<Vec<_>>()));
    let entry_names = ["PrivateBatchProver::new_from_bytes", "PrivateBatchProver::new_from_files", "PrivateBatchProver::new_from_binaries_dir", "generate_private_batch_circuit_binaries"];
    let jobs: Vec<(usize, usize)> = (0..templates.len()).flat_map(|t| (0..entry_names.len()).map(move |e| (t, e))).collect();
    jobs.par_iter().for_each(|&(ti, ei)| {
        if ctx.over_budget() {
            return;
        }
        let (tname, tbytes, want_ok) = &templates[ti];
        let ename = entry_names[ei];
        rep.eval();
        rep.nontrivial(&(ename, *tname));
        let r = guarded(|| -> Result<bool, String> {
            Ok(match ei {
                0 => PrivateBatchProver::new_from_bytes(&cb, &vb, tbytes, 1).is_ok(),
                1 => {
                    let d = bins.variant("tplf", &[("dummy_proof.bin", tbytes.clone())]);
                    PrivateBatchProver::new_from_files(&d.join("common.bin"), &d.join("verifier.bin"), &d.join("dummy_proof.bin"), 1).is_ok()
                }
                2 => PrivateBatchProver::new_from_binaries_dir(&bins.variant("tpld", &[("dummy_proof.bin", tbytes.clone())])).is_ok(),
                _ => {
                    let d = bins.variant("tplb", &[("dummy_proof.bin", tbytes.clone())]);
                    let before: Vec<Vec<u8>> = ["private_batch_common.bin", "private_batch_verifier.bin", "dummy_private_batch_proof.bin"].iter().map(|f| std::fs::read(d.join(f)).unwrap_or_default()).collect();
                    let ok = generate_private_batch_circuit_binaries(&d, 1, true).is_ok();
                    let after: Vec<Vec<u8>> = ["private_batch_common.bin", "private_batch_verifier.bin", "dummy_private_batch_proof.bin"].iter().map(|f| std::fs::read(d.join(f)).unwrap_or_default()).collect();
                    if !ok && before != after {
                        return Err("a build step that rejected its template still modified published artifacts".into());
                    }
                    ok
                }
            })
        });
        let case = json!({"entry": ename, "template": tname});
        match r {
            Err(p) => rep.violation(&format!("template / {ename} panics"), &format!("{ename} panicked on template '{tname}': {p}"), case),
            Ok(Err(m)) => rep.violation(&format!("template / {ename} publishes after rejecting"), &m, case),
            Ok(Ok(got)) => {
                if got && !want_ok {
                    rep.violation(&format!("template / {ename} accepts '{tname}'"), &format!("{ename} accepted the padding template '{tname}'"), case);
                } else if !got && *want_ok {
                    rep.violation(&format!("template / {ename} rejects a valid template"), &format!("{ename} rejected the valid dummy template '{tname}'"), case);
                } else {
                    rep.count(if got { "real_templates_accepted" } else { "real_templates_rejected" });
                }
            }
        }
    });
    // (d) private-batch templates at the public layer through canonical-pinned entry points
    {
        let (pcb, pvb) = (bins.read("private_batch_common.bin"), bins.read("private_batch_verifier.bin"));
        let canonical_pb = bins.read("dummy_private_batch_proof.bin");
        let mut pb_templates: Vec<(&'static str, Vec<u8>, bool)> = vec![("canonical dummy private batch", canonical_pb.clone(), true)];
        // a real (non-dummy) private-batch proof
        let mut r = LeafAsg::baseline(&mut rng, &BaselineOpts { depth: 1, dummy: false });
        r.asset = F::ZERO;
        r.recompute(false);
        if let (Some(lp), Ok(prover)) = (real_leaf_proof(&lc, &r), PrivateBatchProver::new_from_binaries_dir(&bins.dir)) {
            if let Ok(pb) = prover.commit(vec![lp]).and_then(|p| p.prove()) {
                pb_templates.push(("real (non-dummy) private-batch proof", pb.to_bytes(), false));
            } else {
                rep.note("could not produce a real private-batch proof for the template test");
            }
        }
        let mut t = canonical_pb.clone();
        let l = t.len();
        t[l / 3] ^= 1;
        pb_templates.push(("canonical dummy private batch with a flipped bit", t, false));
        pb_templates.push(("leaf dummy proof in place of the private-batch template", canonical_dummy.clone(), false));
        let names = ["PublicBatchProver::new_from_bytes", "PublicBatchProver::new_from_binaries_dir", "PublicBatchAggregator::with_limits"];
        let jobs: Vec<(usize, usize)> = (0..pb_templates.len()).flat_map(|t| (0..names.len()).map(move |e| (t, e))).collect();
        jobs.par_iter().for_each(|&(ti, ei)| {
            if ctx.over_budget() {
                return;
            }
            let (tname, tbytes, want_ok) = &pb_templates[ti];
            rep.eval();
            rep.nontrivial(&(names[ei], *tname));
            let r = guarded(|| match ei {
                0 => PublicBatchProver::new_from_bytes(&pcb, &pvb, tbytes, (1, 2)).is_ok(),
                1 => PublicBatchProver::new_from_binaries_dir(&bins.variant("qtpl", &[("dummy_private_batch_proof.bin", tbytes.clone())])).is_ok(),
                _ => PublicBatchAggregator::with_limits(&bins.variant("atpl", &[("dummy_private_batch_proof.bin", tbytes.clone())]), BytesDigest::default(), wormhole_aggregator::pool::PoolLimits::default()).is_ok(),
            });
            let case = json!({"entry": names[ei], "template": tname});
            match r {
                Err(p) => rep.violation(&format!("template / {} panics", names[ei]), &p, case),
                Ok(got) => {
                    if got && !want_ok {
                        rep.violation(&format!("template / {} accepts '{tname}'", names[ei]), &format!("{} accepted the private-batch padding template '{tname}'", names[ei]), case);
                    } else if !got && *want_ok {
                        rep.violation(&format!("template / {} rejects a valid template", names[ei]), &format!("{} rejected the valid template '{tname}'", names[ei]), case);
                    }
                }
            }
        });
    }
    rep.sample(json!({"entry": "PrivateBatchProver::new", "deviation": "asset (position 0) = 1", "expected": "Err"}));
    rep.sample(json!({"entry": "PrivateBatchProver::new_from_bytes", "template": "dummy with non-zero exit account 1 (real leaf circuit)", "expected": "Err"}));
    rep.finish(ctx, ctx.tier.pick(30, 60))
}

// ---------------------------------------------------------------------------
// C18
// ---------------------------------------------------------------------------

pub fn run_c18(ctx: &Ctx) -> i32 {
    let rule = "case = (aggregator address, batch of real private-batch proofs) through the real pipeline: artifacts from generate_all_circuit_binaries, real leaf proofs, PrivateBatchProver from the bins directory, PublicBatchAggregator::push_proof / aggregate; \
        oracles: the returned proof verifies under the pinned public-batch verifier and exposes the configured address; another aggregator rejects it although it is cryptographically valid; tampered public inputs and wrong lengths are rejected without panic; \
        non-trivial = every aggregated proof and every cross-verification; distinct by (address, proof)";
    let rep = Report::new("C18", "exploration", rule);
    let (n, m) = (1usize, 2usize);
    let bins = match Bins::generate(n, m) {
        Ok(b) => b,
        Err(e) => {
            rep.inconclusive(&format!("generate_all_circuit_binaries failed: {e}"));
            return rep.finish(ctx, 1);
        }
    };
    let lc = match LeafCircuit::build() {
        Ok(x) => x,
        Err(e) => {
            rep.inconclusive(&format!("leaf circuit did not build: {e}"));
            return rep.finish(ctx, 1);
        }
    };
    // real private-batch proofs (each its own block => its own bucket)
    let n_pb = ctx.tier.pick(3usize, 10);
    let pbs: Vec<Proof> = (0..n_pb).into_par_iter().filter_map(|i| {
        let mut rng = ctx.sub_rng("pb", i as u64);
        let depth = rng.gen_range(0..5usize);
        let mut r = LeafAsg::baseline(&mut rng, &BaselineOpts { depth, dummy: false });
        r.asset = F::ZERO;
        r.recompute(false);
        let lp = real_leaf_proof(&lc, &r)?;
        let prover = PrivateBatchProver::new_from_binaries_dir(&bins.dir).ok()?;
        prover.commit(vec![lp]).ok()?.prove().ok()
    }).collect();
    if pbs.len() < 2 {
        rep.inconclusive("could not produce real private-batch proofs through the real provers");
        return rep.finish(ctx, 1);
    }
    rep.add("real_private_batch_proofs", pbs.len() as u64);
    let n_addr = ctx.tier.pick(4usize, 24);
    let addrs: Vec<D4> = (0..n_addr).map(|i| {
        let mut rng = ctx.sub_rng("addr", i as u64);
        match i {
            0 => [F::ZERO; 4],
            1 => [f(P - 1); 4],
            _ => rand_d4(&mut rng),
        }
    }).collect();
    let results: Vec<Option<(usize, Proof)>> = (0..n_addr).into_par_iter().map(|ai| {
        if ctx.over_budget() {
            return None;
        }
        let addr_b = BytesDigest::try_from(d4_bytes(&addrs[ai])).ok()?;
        let agg = PublicBatchAggregator::new(&bins.dir, addr_b);
        let Ok(mut agg) = agg else {
            rep.violation("address / aggregator init fails on canonical artifacts", "PublicBatchAggregator::new failed on a canonical bins directory", json!({}));
            return None;
        };
        let pb = &pbs[ai % pbs.len()];
        let key = match agg.push_proof(pb.clone()) {
            Ok(k) => k,
            Err(e) => {
                rep.violation("address / valid private-batch proof not admitted", &format!("push_proof rejected a valid real private-batch proof: {e}"), json!({}));
                return None;
            }
        };
        rep.eval();
        let res = guarded(|| agg.aggregate(&key));
        match res {
            Ok(Ok(proof)) => {
                rep.nontrivial(&("agg", ai, proof.public_inputs.iter().map(|x| u(*x)).collect::<Vec<_>>()));
                if proof.public_inputs.len() != pub_pi_len(m, n) || proof.public_inputs[..4] != addrs[ai] {
                    rep.violation("address / returned proof exposes another address", "the aggregated proof does not expose the configured aggregator address in its first four public inputs",
                        json!({"configured": addrs[ai].iter().map(|x| u(*x)).collect::<Vec<_>>(), "exposed": proof.public_inputs[..4].iter().map(|x| u(*x)).collect::<Vec<_>>()}));
                }
                if agg.verify(proof.clone()).is_err() {
                    rep.violation("address / own proof rejected", "the aggregator rejects the proof it just returned", json!({}));
                }
                // pinned public-batch verifier (canonical rebuild)
                let pv = wormhole_aggregator::common::utils::canonical_private_batch_verifier_data(&wormhole_aggregator::common::utils::canonical_leaf_verifier_data(), n)
                    .and_then(|pb| wormhole_aggregator::common::utils::canonical_public_batch_verifier_data(&pb, m, n));
                if let Ok(v) = pv {
                    if v.verify(proof.clone()).is_err() {
                        rep.violation("address / returned proof does not verify", "the aggregated proof does not verify under a canonical rebuild of the public-batch verifier", json!({}));
                    }
                }
                // tampering and wrong lengths
                for pos in [0usize, 3, 4, 11, 12, proof.public_inputs.len() - 1] {
                    let mut t = proof.clone();
                    t.public_inputs[pos] += F::ONE;
                    rep.eval();
                    match guarded(|| agg.verify(t.clone())) {
                        Ok(Err(_)) => {}
                        Ok(Ok(())) => rep.violation("address / tampered proof accepted", &format!("aggregator.verify accepted a proof with public input {pos} changed"), json!({"pos": pos})),
                        Err(p) => rep.violation("address / verify panics", &p, json!({"pos": pos})),
                    }
                }
                for delta in [-8i32, -4, -1, 1, 4, 8] {
                    let mut t = proof.clone();
                    if delta < 0 {
                        for _ in 0..(-delta) { t.public_inputs.pop(); }
                    } else {
                        for _ in 0..delta { t.public_inputs.push(F::ZERO); }
                    }
                    rep.eval();
                    match guarded(|| agg.verify(t.clone())) {
                        Ok(Err(_)) => {}
                        Ok(Ok(())) => rep.violation("address / wrong-length proof accepted", &format!("aggregator.verify accepted a proof with {delta:+} public inputs"), json!({"delta": delta})),
                        Err(p) => rep.violation("address / verify panics on wrong length", &p, json!({"delta": delta})),
                    }
                }
                Some((ai, proof))
            }
            Ok(Err(e)) => {
                rep.violation("address / aggregation of an admitted bucket fails", &format!("aggregate failed for an admitted proof: {e}"), json!({}));
                None
            }
            Err(p) => {
                rep.violation("address / aggregate panics", &p, json!({}));
                None
            }
        }
    }).collect();
    let proofs: Vec<(usize, Proof)> = results.into_iter().flatten().collect();
    // cross verification: B rejects A's proof although it is cryptographically valid.
    // One aggregator per address is built once (each construction rebuilds and pins the canonical circuits).
    let aggs: Vec<Option<PublicBatchAggregator>> = (0..n_addr)
        .into_par_iter()
        .map(|bi| {
            if ctx.over_budget() {
                return None;
            }
            let addr_b = BytesDigest::try_from(d4_bytes(&addrs[bi])).ok()?;
            PublicBatchAggregator::new(&bins.dir, addr_b).ok()
        })
        .collect();
    for (ai, proof) in proofs.iter() {
        for bi in 0..n_addr {
            if bi == *ai || addrs[bi] == addrs[*ai] {
                continue;
            }
            let Some(agg_b) = aggs[bi].as_ref() else { continue };
            rep.eval();
            rep.nontrivial(&("cross", ai, bi));
            match guarded(|| agg_b.verify(proof.clone())) {
                Ok(Err(_)) => rep.count("foreign_address_rejected"),
                Ok(Ok(())) => rep.violation("address / proof bound to another address accepted", "an aggregator accepted a valid proof that exposes a different aggregator address",
                    json!({"proof_address": addrs[*ai].iter().map(|x| u(*x)).collect::<Vec<_>>(), "verifier_address": addrs[bi].iter().map(|x| u(*x)).collect::<Vec<_>>()})),
                Err(p) => rep.violation("address / verify panics", &p, json!({})),
            }
        }
    }
    // neighbour addresses: differ from the proof's address in a single limb / a single byte / all limbs but one
    for (ai, proof) in proofs.iter().take(ctx.tier.pick(2, 8)) {
        let a = d4_bytes(&addrs[*ai]);
        let mut neighbours: Vec<[u8; 32]> = vec![];
        for limb in 0..4 {
            let mut b = a;
            b[limb * 8] ^= 1; // lowest byte of one limb
            neighbours.push(b);
            let mut c = a;
            for other in 0..4 {
                if other != limb {
                    c[other * 8 + 1] ^= 0x40; // every limb but one
                }
            }
            neighbours.push(c);
        }
        let mut d = a;
        d[31] ^= 0x01;
        neighbours.push(d);
        // also: same low half / same high half (a comparison that covers only part of the 32 bytes)
        let mut e = a;
        for k in 16..32 {
            e[k] ^= 0x11;
        }
        if e[24..32] == [0xffu8; 8] { e[24] = 0; }
        neighbours.push(e);
        let mut g = a;
        for k in 0..16 {
            g[k] ^= 0x11;
        }
        neighbours.push(g);
        neighbours.par_iter().for_each(|nb| {
            let nb = *nb;
            if ctx.over_budget() {
                return;
            }
            let Ok(addr_b) = BytesDigest::try_from(nb) else { return };
            if nb == a {
                return;
            }
            let Ok(agg_b) = PublicBatchAggregator::new(&bins.dir, addr_b) else { return };
            rep.eval();
            rep.nontrivial(&("neighbour", ai, nb));
            match guarded(|| agg_b.verify(proof.clone())) {
                Ok(Err(_)) => rep.count("neighbour_address_rejected"),
                Ok(Ok(())) => rep.violation("address / proof bound to a neighbouring address accepted", "an aggregator accepted a valid proof whose exposed address differs from its own in only some limbs",
                    json!({"proof_address": hex::encode(a), "verifier_address": hex::encode(nb)})),
                Err(p) => rep.violation("address / verify panics", &p, json!({})),
            }
        });
    }
    rep.add("aggregated_proofs", proofs.len() as u64);
    if let Some((ai, p)) = proofs.first() {
        rep.sample(json!({"address": addrs[*ai].iter().map(|x| u(*x)).collect::<Vec<_>>(), "public_inputs_prefix": p.public_inputs[..12].iter().map(|x| u(*x)).collect::<Vec<_>>()}));
    }
    rep.finish(ctx, ctx.tier.pick(3, 10))
}
