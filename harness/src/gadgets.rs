//! C30 (less-than gadget), C31 (digest sorting gadget), C10 (no witness freedom in wrappers and gadgets).

use crate::cso::{f, u, Cso};
use crate::hints;
use crate::leaf::{rand_d4, D4, P};
use crate::util::{Ctx, Report};
use crate::wrap::*;
use crate::wrapcheck::{near_equal_vector, random_inners, random_vector, Inject, PubInject};
use plonky2::field::types::Field;
use plonky2::iop::target::Target;
use plonky2::plonk::circuit_builder::CircuitBuilder;
use plonky2::plonk::circuit_data::CircuitConfig;
use rand::Rng;
use rayon::prelude::*;
use serde_json::json;
use std::panic::{catch_unwind, AssertUnwindSafe};
use zk_circuits_common::circuit::{C, D, F};
use zk_circuits_common::gadgets::{bytes_digest_eq, enforce_target_less_than_const, is_const_less_than, sort_digests4};

const M32: u64 = (1 << 32) - 1;

pub struct LtCircuit {
    pub cso: Cso,
    pub x: Target,
    pub w: usize,
    pub c: usize,
    pub enforce: bool,
}

impl LtCircuit {
    /// out = (c < x) registered as PI [x, out]; or the enforcing variant (PI [x])
    pub fn build(w: usize, c: usize, enforce: bool) -> Option<Self> {
        let r = catch_unwind(AssertUnwindSafe(|| {
            let mut b = CircuitBuilder::<F, D>::new(CircuitConfig::standard_recursion_config());
            let x = b.add_virtual_target();
            b.register_public_input(x);
            if enforce {
                // enforce x < c  (upper bound exclusive = c)
                enforce_target_less_than_const(&mut b, x, c, w);
            } else {
                let out = is_const_less_than(&mut b, c, x, w);
                b.register_public_input(out.target);
            }
            (b.build::<C>(), x)
        }));
        let (data, x) = r.ok()?;
        Some(Self { cso: Cso::new(data).ok()?, x, w, c, enforce })
    }
}

/// out = bytes_digest_eq(a, c), PIs = [a0..a3, c0..c3, out]
pub struct DigestEqCircuit {
    pub cso: Cso,
    pub a: [Target; 4],
    pub c: [Target; 4],
}

impl DigestEqCircuit {
    pub fn build() -> Option<Self> {
        let r = catch_unwind(AssertUnwindSafe(|| {
            let mut b = CircuitBuilder::<F, D>::new(CircuitConfig::standard_recursion_config());
            let a: [Target; 4] = std::array::from_fn(|_| b.add_virtual_target());
            let c: [Target; 4] = std::array::from_fn(|_| b.add_virtual_target());
            b.register_public_inputs(&a);
            b.register_public_inputs(&c);
            let out = bytes_digest_eq(&mut b, a, c);
            b.register_public_input(out.target);
            (b.build::<C>(), a, c)
        }));
        let (data, a, c) = r.ok()?;
        Some(Self { cso: Cso::new(data).ok()?, a, c })
    }
}

/// digest pairs for the equality gadget: equal, one-limb neighbours at every position (by 1, by a
/// random amount, by 2^32, against zero), several-limb differences, lossy-fold aliases
pub fn digest_eq_pairs(rng: &mut impl Rng) -> Vec<(D4, D4)> {
    let mut v: Vec<(D4, D4)> = vec![];
    let base = rand_d4(rng);
    v.push((base, base));
    v.push(([F::ZERO; 4], [F::ZERO; 4]));
    v.push((base, rand_d4(rng)));
    for k in 0..4 {
        for delta in [F::ONE, f(1 << 32), f(P - 1), f(rng.gen_range(2..P - 1))] {
            let mut c = base;
            c[k] += delta;
            v.push((base, c));
            v.push((c, base));
        }
        let mut z = [F::ZERO; 4];
        z[k] = f(rng.gen_range(1..P));
        v.push((z, [F::ZERO; 4]));
        v.push(([F::ZERO; 4], z));
        // differs everywhere except limb k
        let mut c = rand_d4(rng);
        c[k] = base[k];
        v.push((base, c));
    }
    for (i, j) in [(0usize, 1usize), (0, 3), (1, 2), (2, 3)] {
        // sum-preserving two-limb difference and a swap
        let mut c = base;
        c[i] += F::ONE;
        c[j] -= F::ONE;
        v.push((base, c));
        let mut d = base;
        d.swap(i, j);
        if d != base {
            v.push((base, d));
        }
    }
    v
}

fn judge_digest_eq(rep: &Report, dc: &DigestEqCircuit, a: &D4, c: &D4, thorough: bool, pairs: usize) {
    let mut pins: Vec<(Target, F)> = vec![];
    for i in 0..4 {
        pins.push((dc.a[i], a[i]));
        pins.push((dc.c[i], c[i]));
    }
    let run = dc.cso.run(&[], &pins, false);
    let acc = dc.cso.eval(&run).accepted();
    let pis = dc.cso.public_inputs(&run);
    rep.eval();
    rep.nontrivial(&("deq", a.map(u), c.map(u)));
    let case = || json!({"gadget": "bytes_digest_eq", "a": a.map(u), "c": c.map(u)});
    let want = (a == c) as u64;
    if !acc {
        let (ok, _) = dc.cso.confirm(&run);
        if !ok {
            rep.violation("digest-eq / honest witness rejected", "the digest equality gadget has no satisfying honest witness for a pair of canonical digests", case());
        } else {
            rep.inconclusive("CSO and real prover/verifier disagree on the digest equality gadget");
        }
        return;
    }
    if u(pis[8]) != want {
        rep.violation("digest-eq / wrong output", &format!("bytes_digest_eq outputs {} for digests that are {}", u(pis[8]), if want == 1 { "equal" } else { "different" }), case());
    }
    let judge_override = |r: &crate::cso::Run, who: String, set: &[(Target, F)]| {
        let p = dc.cso.public_inputs(r);
        let (a2, c2): (Vec<F>, Vec<F>) = (p[0..4].to_vec(), p[4..8].to_vec());
        let want2 = (a2 == c2) as u64;
        if u(p[8]) == want2 {
            rep.count("override_accepted_benign");
            return;
        }
        let (ok, _) = dc.cso.confirm(r);
        if !ok {
            rep.inconclusive("CSO accepted an overridden gadget witness that the real verifier rejects");
            return;
        }
        rep.violation(&format!("witness-freedom / digest equality gadget ({who})"),
            &format!("overriding hints of {who} makes bytes_digest_eq output {} for digests that are {}", u(p[8]), if want2 == 1 { "equal" } else { "different" }),
            json!({"a": a2.iter().map(|x| u(*x)).collect::<Vec<_>>(), "c": c2.iter().map(|x| u(*x)).collect::<Vec<_>>(),
                "override": set.iter().map(|(t, v)| json!([format!("{t:?}"), u(*v)])).collect::<Vec<_>>()}));
    };
    let on_accept = |r: &crate::cso::Run, gi: usize, set: &[(Target, F)]| judge_override(r, format!("generator {} ({})", gi, dc.cso.gen_ids[gi]), set);
    hints::sweep(&dc.cso, &[], &pins, 1, 0, thorough, rep, &on_accept);
    if pairs > 0 {
        let on_pair = |r: &crate::cso::Run, set: &[(Target, F)]| judge_override(r, "a pair of generators".to_string(), set);
        hints::sweep_pairs(&dc.cso, &pins, pairs, rep, &on_pair);
    }
}

fn lt_model(w: usize, c: u64, x: u64, enforce: bool) -> (bool, Option<u64>) {
    // (satisfiable, output)
    let in_width = w >= 64 || x < (1u64 << w);
    if enforce {
        // accepted exactly for values below the bound (which also fit the width)
        (x < c && in_width, None)
    } else {
        (in_width, Some((c < x) as u64))
    }
}

fn lt_values(w: usize, c: u64, rng: &mut impl Rng) -> Vec<u64> {
    let mut v = vec![0u64, 1, c.saturating_sub(1), c, c.saturating_add(1), M32, M32 + 1, P - 1, P - 2, rng.gen_range(0..P)];
    if w < 64 {
        let top = 1u64 << w;
        v.extend_from_slice(&[top - 1, top, top + 1, top + c.min(1 << 20)]);
    }
    v.retain(|x| *x < P);
    v.sort();
    v.dedup();
    v
}

fn judge_lt(rep: &Report, lc: &LtCircuit, xv: u64, do_hints: bool, thorough: bool) {
    let pins = vec![(lc.x, f(xv))];
    let run = lc.cso.run(&[], &pins, false);
    let acc = lc.cso.eval(&run).accepted();
    let pis = lc.cso.public_inputs(&run);
    rep.eval();
    rep.nontrivial(&("lt", lc.w, lc.c, xv, lc.enforce));
    let (sat, out) = lt_model(lc.w, lc.c as u64, xv, lc.enforce);
    let case = || json!({"gadget": if lc.enforce {"enforce_target_less_than_const"} else {"is_const_less_than"}, "width": lc.w, "constant": lc.c, "value": xv});
    if acc != sat {
        let (ok, _) = lc.cso.confirm(&run);
        if ok == acc {
            rep.violation(&format!("less-than / satisfiable got={acc} want={sat} enforce={}", lc.enforce),
                &format!("less-than gadget (width {}, constant {}) is {} for value {xv}, expected {}", lc.w, lc.c, if acc {"satisfiable"} else {"unsatisfiable"}, if sat {"satisfiable"} else {"unsatisfiable"}), case());
        } else {
            rep.inconclusive("CSO and real prover/verifier disagree on a gadget circuit");
        }
    }
    if acc {
        if let Some(o) = out {
            if u(pis[1]) != o || u(pis[0]) != xv {
                rep.violation("less-than / wrong output", &format!("less-than gadget (width {}, constant {}) outputs {} for value {xv}, expected {o}", lc.w, lc.c, u(pis[1])), case());
            }
        }
    }
    if do_hints {
        let on_accept = |r: &crate::cso::Run, gi: usize, set: &[(Target, F)]| {
            let p = lc.cso.public_inputs(r);
            let xj = u(p[0]);
            let (sat_j, out_j) = lt_model(lc.w, lc.c as u64, xj, lc.enforce);
            let bad = !sat_j || out_j.map(|o| u(p[1]) != o).unwrap_or(false);
            if bad {
                let (ok, _) = lc.cso.confirm(r);
                if !ok {
                    rep.inconclusive("CSO accepted an overridden gadget witness that the real verifier rejects");
                    return;
                }
                rep.violation(&format!("less-than / hint override flips result ({})", lc.cso.gen_ids[gi]),
                    &format!("overriding hints of generator {} ({}) makes the less-than gadget (width {}, constant {}) accept value {xj} with output {:?}", gi, lc.cso.gen_ids[gi], lc.w, lc.c, p.get(1).map(|x| u(*x))),
                    json!({"case": case(), "override": set.iter().map(|(t, v)| json!([format!("{t:?}"), u(*v)])).collect::<Vec<_>>()}));
            } else {
                rep.count("override_accepted_benign");
            }
        };
        hints::sweep(&lc.cso, &[], &pins, 1, 0, thorough, rep, &on_accept);
    }
}

pub fn run_c30(ctx: &Ctx) -> i32 {
    let rule = "case = (gadget, width w, constant c, value x, optional hint override): circuits are built by the repository's is_const_less_than / enforce_target_less_than_const; w in 1..8 with ALL constants and ALL values 0..2^w+3 (exhaustive), \
        w in {16,31,32,33,48,62,63,64} with boundary constants and values; every generator of every circuit is hint-overridden (incl. the (lo,hi) p-alias at width 64); non-trivial = every judged (w,c,x) and every effective override; distinct by those tuples";
    let rep = Report::new("C30", "exploration", rule);
    let thorough = ctx.tier == crate::util::Tier::Thorough;
    // exhaustive small widths
    let maxw = ctx.tier.pick(6usize, 8);
    let mut jobs: Vec<(usize, usize, bool)> = vec![];
    for w in 1..=maxw {
        for c in 0..(1usize << w) {
            jobs.push((w, c, false));
            if c > 0 {
                jobs.push((w, c, true));
            }
        }
    }
    jobs.par_iter().for_each(|&(w, c, enforce)| {
        let Some(lc) = LtCircuit::build(w, c, enforce) else {
            rep.inconclusive(&format!("gadget circuit w={w} c={c} did not build"));
            return;
        };
        let top = 1u64 << w;
        for x in 0..(top + 4) {
            let interesting = x == 0 || x == c as u64 || x == c as u64 + 1 || x + 1 == top || x == top || (thorough && (x + c as u64) % 5 == 0);
            let mut hints = interesting && (thorough || (c + w) % 4 == 0);
            if hints && ctx.over_budget() {
                // the value judgement stays exhaustive; only the hint sweeps are bounded by the time budget
                rep.count("hint_sweeps_skipped_by_time_budget");
                hints = false;
            }
            judge_lt(&rep, &lc, x, hints, thorough);
        }
        for x in [P - 1, M32 + 1, 1u64 << 63] {
            judge_lt(&rep, &lc, x, false, thorough);
        }
    });
    rep.set_extra("exhaustive_small_widths", json!({"widths": format!("1..={maxw}"), "circuits": jobs.len(), "complete_within_widths": true}));
    // large widths
    let widths = [16usize, 31, 32, 33, 48, 62, 63, 64];
    let big: Vec<(usize, usize, bool)> = widths
        .iter()
        .flat_map(|&w| {
            let top: u128 = if w >= 64 { 1u128 << 64 } else { 1u128 << w };
            let maxc: u128 = if w >= 64 { (P - 1) as u128 } else { top - 1 };
            let mut cs: Vec<usize> = vec![0, 1, 2, (top / 2) as usize, (maxc - 1) as usize, maxc as usize, 16, (M32 as u128).min(maxc) as usize];
            if w == 64 {
                cs.extend_from_slice(&[(P - 1) as usize, (P - 2) as usize, (M32 + 1) as usize, (1u64 << 63) as usize]);
            }
            cs.sort();
            cs.dedup();
            cs.into_iter().flat_map(move |c| [(w, c, false), (w, c, true)])
        })
        .filter(|(_, c, e)| !(*e && *c == 0))
        .collect();
    big.par_iter().enumerate().for_each(|(i, &(w, c, enforce))| {
        let Some(lc) = LtCircuit::build(w, c, enforce) else {
            rep.inconclusive(&format!("gadget circuit w={w} c={c} did not build"));
            return;
        };
        let mut rng = ctx.sub_rng("big", i as u64);
        for x in lt_values(w, c as u64, &mut rng) {
            let interesting = x == 0 || x == c as u64 || x == c as u64 + 1 || x == P - 1 || x == M32 + 1;
            let mut hints = thorough || (interesting && (i + x as usize) % 2 == 0);
            if hints && ctx.over_budget() {
                rep.count("hint_sweeps_skipped_by_time_budget");
                hints = false;
            }
            judge_lt(&rep, &lc, x, hints, thorough);
        }
    });
    rep.sample(json!({"width": 64, "constant": 0, "value": 0, "expected_output": 0, "attack": "LowHighGenerator outputs pinned to the halves of 0+p"}));
    rep.sample(json!({"width": 5, "constant": 16, "value": 17, "enforce": true, "expected": "unsatisfiable"}));
    rep.finish(ctx, ctx.tier.pick(1000, 10000))
}

// ---------------------------------------------------------------------------
// C31
// ---------------------------------------------------------------------------

pub struct SortCircuit {
    pub cso: Cso,
    pub inputs: Vec<[Target; 4]>,
    pub n: usize,
}

impl SortCircuit {
    pub fn build(n: usize) -> Option<Self> {
        let mut b = CircuitBuilder::<F, D>::new(CircuitConfig::standard_recursion_config());
        let mut inputs = vec![];
        for _ in 0..n {
            let t = b.add_virtual_targets(4);
            inputs.push([t[0], t[1], t[2], t[3]]);
        }
        let out = sort_digests4(&mut b, inputs.clone());
        for d in out {
            b.register_public_inputs(&d);
        }
        let data = b.build::<C>();
        Some(Self { cso: Cso::new(data).ok()?, inputs, n })
    }
    pub fn pins(&self, v: &[D4]) -> Vec<(Target, F)> {
        self.inputs.iter().zip(v).flat_map(|(ts, d)| ts.iter().copied().zip(d.iter().copied()).collect::<Vec<_>>()).collect()
    }
}

fn judge_sort(rep: &Report, sc: &SortCircuit, v: &[D4], do_hints: bool, thorough: bool) {
    let pins = sc.pins(v);
    let run = sc.cso.run(&[], &pins, false);
    let acc = sc.cso.eval(&run).accepted();
    rep.eval();
    rep.nontrivial(&("sort", sc.n, v.iter().map(canon).collect::<Vec<_>>()));
    let mut want: Vec<[u64; 4]> = v.iter().map(canon).collect();
    want.sort();
    let case = || json!({"n": sc.n, "inputs": v.iter().map(canon).collect::<Vec<_>>()});
    if !acc {
        rep.violation("sort / honest witness rejected", "the sorting gadget rejects its honest witness for canonical digests", case());
        return;
    }
    let out: Vec<u64> = sc.cso.public_inputs(&run).iter().map(|x| u(*x)).collect();
    let got: Vec<[u64; 4]> = out.chunks(4).map(|c| [c[0], c[1], c[2], c[3]]).collect();
    if got != want {
        rep.violation("sort / wrong output", "the sorting gadget's output is not the ascending lexicographic permutation of its input", json!({"case": case(), "got": got, "want": want}));
    }
    if do_hints {
        let on_accept = |r: &crate::cso::Run, gi: usize, set: &[(Target, F)]| {
            let out: Vec<u64> = sc.cso.public_inputs(r).iter().map(|x| u(*x)).collect();
            let got: Vec<[u64; 4]> = out.chunks(4).map(|c| [c[0], c[1], c[2], c[3]]).collect();
            // judged inputs (overrides cannot change pinned inputs, but read them back anyway)
            let mut jw: Vec<[u64; 4]> = sc.inputs.iter().map(|ts| { let g = sc.cso.get_many(r, ts); [u(g[0]), u(g[1]), u(g[2]), u(g[3])] }).collect();
            jw.sort();
            if got != jw {
                let (ok, _) = sc.cso.confirm(r);
                if !ok {
                    rep.inconclusive("CSO accepted an overridden sort witness that the real verifier rejects");
                    return;
                }
                rep.violation(&format!("sort / hint override changes output ({})", sc.cso.gen_ids[gi]),
                    &format!("overriding hints of generator {} ({}) yields an accepted output that is not the sorted permutation", gi, sc.cso.gen_ids[gi]),
                    json!({"case": case(), "got": got, "want": jw, "override": set.iter().map(|(t, v)| json!([format!("{t:?}"), u(*v)])).collect::<Vec<_>>()}));
            } else {
                rep.count("override_accepted_benign");
            }
        };
        hints::sweep(&sc.cso, &[], &pins, if thorough { 1 } else { 3 }, v.len(), thorough, rep, &on_accept);
    }
}

pub fn run_c31(ctx: &Ctx) -> i32 {
    let rule = "case = list of n digests (n<=3: exhaustive over limbs {0,1,2^32-1,2^32,p-1} in the two most significant positions; larger n: random with duplicates and boundary limbs) through the repository's sort_digests4; \
        output compared with the ascending lexicographic sort; comparator flags, half splits and equality hints are overridden; non-trivial = every judged list and every effective override; distinct by input list / override";
    let rep = Report::new("C31", "exploration", rule);
    let thorough = ctx.tier == crate::util::Tier::Thorough;
    let limbs = [0u64, 1, M32, M32 + 1, P - 1];
    let dom: Vec<D4> = limbs.iter().flat_map(|a| limbs.iter().map(move |b| [f(*a), f(*b), f(7), f(P - 2)])).collect();
    let dom_low: Vec<D4> = limbs.iter().flat_map(|a| limbs.iter().map(move |b| [f(5), f(5), f(*a), f(*b)])).collect();
    for n in 1..=3usize {
        let Some(sc) = SortCircuit::build(n) else {
            rep.inconclusive("sort circuit did not build");
            return rep.finish(ctx, 1);
        };
        let total = dom.len().pow(n as u32);
        let stride = if n == 3 { ctx.tier.pick(7, 1) } else { 1 };
        (0..total).into_par_iter().filter(|i| i % stride == (ctx.seed as usize) % stride).for_each(|i| {
            if ctx.over_budget() {
                return;
            }
            let mut idx = i;
            let mut v = vec![];
            let mut vl = vec![];
            for _ in 0..n {
                v.push(dom[idx % dom.len()]);
                vl.push(dom_low[idx % dom.len()]);
                idx /= dom.len();
            }
            judge_sort(&rep, &sc, &v, i % ctx.tier.pick(1499, 97) == 0, thorough);
            judge_sort(&rep, &sc, &vl, false, thorough);
        });
        rep.set_extra(&format!("exhaustive_n{n}"), json!({"domain": total, "stride": stride, "complete": stride == 1}));
    }
    let sizes: Vec<usize> = ctx.tier.pick(vec![2, 4, 5, 8], vec![2, 4, 5, 8, 16, 64]);
    for n in sizes {
        let Some(sc) = SortCircuit::build(n) else {
            rep.inconclusive("sort circuit did not build");
            return rep.finish(ctx, 1);
        };
        let cnt = ctx.tier.pick(300usize, 6000) / n.max(1) + 4;
        (0..cnt).into_par_iter().for_each(|i| {
            if ctx.over_budget() {
                return;
            }
            let mut rng = ctx.sub_rng(&format!("sort{n}"), i as u64);
            let pool: Vec<D4> = (0..rng.gen_range(1..=n)).map(|_| {
                let mut d = rand_d4(&mut rng);
                for k in 0..4 {
                    if rng.gen_bool(0.3) {
                        d[k] = f(limbs[rng.gen_range(0..limbs.len())]);
                    }
                }
                d
            }).collect();
            let v: Vec<D4> = (0..n).map(|_| {
                let mut d = pool[rng.gen_range(0..pool.len())];
                if rng.gen_bool(0.3) {
                    let k = rng.gen_range(0..4);
                    d[k] += F::ONE; // near-duplicates differing in one limb
                }
                d
            }).collect();
            judge_sort(&rep, &sc, &v, i % (if n <= 5 { ctx.tier.pick(60, 10) } else { ctx.tier.pick(1000, 60) }) == 0, thorough);
        });
    }
    // size sweep: the network's schedule depends on n (parity, powers of two, thresholds between algorithms), so every
    // length up to 20 and lengths around every power of two up to 64 are sorted on adversarial orders: descending,
    // rotated-sorted (minimum parked last / maximum parked first), interleaved halves, and random
    let sweep: Vec<usize> = ctx.tier.pick(
        vec![1usize, 2, 3, 4, 5, 6, 7, 8, 9, 10, 11, 12, 13, 15, 16, 17, 20, 24, 31, 32, 33],
        (1usize..=64).collect(),
    );
    sweep.par_iter().for_each(|&n| {
        if ctx.over_budget() {
            return;
        }
        let Some(sc) = SortCircuit::build(n) else {
            rep.inconclusive(&format!("sort circuit for n={n} did not build"));
            return;
        };
        let mut rng = ctx.sub_rng("sort-sweep", n as u64);
        let mut base: Vec<D4> = (0..n).map(|_| rand_d4(&mut rng)).collect();
        base.sort_by(|a, b| a.iter().map(|x| u(*x)).collect::<Vec<_>>().cmp(&b.iter().map(|x| u(*x)).collect::<Vec<_>>()));
        let mut orders: Vec<Vec<D4>> = vec![];
        let mut desc = base.clone();
        desc.reverse();
        orders.push(desc);
        if n >= 2 {
            let mut rot = base.clone();
            rot.rotate_left(1);
            orders.push(rot); // minimum parked last
            let mut rot2 = base.clone();
            rot2.rotate_right(1);
            orders.push(rot2); // maximum parked first
            let (lo, hi) = base.split_at(n / 2);
            let mut inter: Vec<D4> = vec![];
            for i in 0..hi.len() {
                inter.push(hi[i]);
                if i < lo.len() {
                    inter.push(lo[i]);
                }
            }
            orders.push(inter);
        }
        for _ in 0..ctx.tier.pick(2usize, 6) {
            let mut sh = base.clone();
            use rand::seq::SliceRandom;
            sh.shuffle(&mut rng);
            orders.push(sh);
        }
        for v in orders {
            judge_sort(&rep, &sc, &v, false, thorough);
            rep.count("size_sweep_lists");
        }
    });
    rep.set_extra("size_sweep", json!({"lengths": sweep}));
    rep.sample(json!({"n": 2, "inputs": [[0, M32 + 1, 7, P - 2], [0, M32, 7, P - 2]], "expected_first": [0, M32, 7, P - 2]}));
    rep.finish(ctx, ctx.tier.pick(1000, 10000))
}

// ---------------------------------------------------------------------------
// C10
// ---------------------------------------------------------------------------

pub fn run_c10(ctx: &Ctx) -> i32 {
    let rule = "case = (wrapper or gadget circuit, fixed inputs, hint override set): for fixed child public inputs (+ preimages / address) every accepted effective override must leave all registered public inputs unchanged; \
        for input vectors whose honest witness is rejected no override may make them accepted; overrides = every generator output x generic values + semantic families (equality hints, (lo,hi) p-aliases, limb carries) + sampled pairs; \
        non-trivial = every effective override; distinct by (circuit, inputs, generator, values)";
    let rep = Report::new("C10", "exploration", rule);
    rep.assume("the recursive-verifier gadget's own hints are plonky2's responsibility and are not swept (wrapper-only circuits, hooks H1/H2)");
    let thorough = ctx.tier == crate::util::Tier::Thorough;
    // private wrappers
    for n in ctx.tier.pick(vec![1usize, 2, 3], vec![1usize, 2, 3, 4]) {
        let w = match PrivW::build(n) {
            Ok(w) => w,
            Err(e) => {
                rep.inconclusive(&format!("private wrapper N={n} did not build: {e}"));
                return rep.finish(ctx, 1);
            }
        };
        let vectors = ctx.tier.pick(3usize, 24);
        // second half: "near-equal" vectors in which every digest comparison sees one-limb neighbours
        let near = ctx.tier.pick(8usize, 32);
        for vi in 0..vectors + near {
            if ctx.over_budget() {
                break;
            }
            let mut rng = ctx.sub_rng(&format!("pv{n}"), vi as u64);
            let inj = [Inject::None, Inject::DupNull, Inject::SumOverflow, Inject::Block, Inject::Fee, Inject::None][vi % 6];
            let is_near = vi >= vectors;
            let (mut s, p) = if is_near {
                let j = vi - vectors;
                rep.count("private_vectors_near_equal");
                near_equal_vector(&mut rng, n, j % 4, j % 8 >= 4)
            } else {
                random_vector(&mut rng, n, inj)
            };
            if is_near && (vi - vectors) % 8 == 7 {
                // all slots dummy: every real-slot check is vacuous, the header must still be forced to zero
                rep.count("private_vectors_all_dummy");
                for x in s.iter_mut() {
                    x.block_hash = [F::ZERO; 4];
                }
            }
            let children: Vec<Vec<F>> = s.iter().map(|x| x.to_pis()).collect();
            let pins = w.pins(&children, &p);
            let honest = w.cso.run(&[], &pins, false);
            let honest_acc = w.cso.eval(&honest).accepted();
            let honest_pis = w.cso.public_inputs(&honest);
            let (jc, jp) = w.read_children(&honest);
            rep.count(if honest_acc { "private_vectors_honest_accepted" } else { "private_vectors_honest_rejected" });
            let stride = if is_near { ctx.tier.pick(if n >= 3 { 2 } else { 1 }, 1) } else { ctx.tier.pick(if n >= 3 { 8 } else { 3 }, if n >= 3 { 2 } else { 1 }) };
            let on_accept = |r: &crate::cso::Run, gi: usize, set: &[(Target, F)]| {
                let (c2, p2) = w.read_children(r);
                if c2 != jc || p2 != jp {
                    rep.count("override_changed_inputs(not counted)");
                    return;
                }
                let pis = w.cso.public_inputs(r);
                let what = if !honest_acc { Some("a batch whose honest witness fails becomes satisfiable") } else if pis != honest_pis { Some("an accepted witness yields a different public output") } else { None };
                match what {
                    None => rep.count("override_accepted_benign"),
                    Some(msg) => {
                        let (ok, _) = w.cso.confirm(r);
                        if !ok {
                            rep.inconclusive("CSO accepted an overridden wrapper witness that the real verifier rejects");
                            return;
                        }
                        rep.violation(&format!("witness-freedom / private wrapper ({})", w.cso.gen_ids[gi]),
                            &format!("private-batch wrapper N={n}: with hints of generator {} ({}) overridden, {msg}", gi, w.cso.gen_ids[gi]),
                            json!({"children": children.iter().map(|c| c.iter().map(|x| u(*x)).collect::<Vec<_>>()).collect::<Vec<_>>(),
                                "override": set.iter().map(|(t, v)| json!([format!("{t:?}"), u(*v)])).collect::<Vec<_>>(),
                                "honest_output": honest_pis.iter().map(|x| u(*x)).collect::<Vec<_>>(), "output": pis.iter().map(|x| u(*x)).collect::<Vec<_>>()}));
                    }
                }
            };
            hints::sweep(&w.cso, &[], &pins, stride, vi + ctx.seed as usize, thorough, &rep, &on_accept);
            if vi == 0 {
                rep.sample(json!({"circuit": format!("private wrapper N={n}"), "children": children.iter().map(|c| c.iter().map(|x| u(*x)).collect::<Vec<_>>()).collect::<Vec<_>>(), "honest_accepted": honest_acc}));
            }
        }
    }
    // public wrappers
    for (m, n) in ctx.tier.pick(vec![(2usize, 1usize), (2, 2)], vec![(1, 1), (2, 1), (2, 2), (3, 2)]) {
        let w = match PubW::build(m, n) {
            Ok(w) => w,
            Err(e) => {
                rep.inconclusive(&format!("public wrapper M={m} N={n} did not build: {e}"));
                return rep.finish(ctx, 1);
            }
        };
        let pub_vectors = ctx.tier.pick(3usize, 16);
        // shape vectors after the random ones: all inners dummy (every per-inner check is vacuous, so nothing but the
        // wrapper's own arithmetic pins the header), all dummy with hostile contents, exactly one real inner at each index
        let shapes = 2 + m;
        for vi in 0..pub_vectors + shapes {
            if ctx.over_budget() {
                break;
            }
            let mut rng = ctx.sub_rng(&format!("qv{m}x{n}"), vi as u64);
            let inj = [PubInject::None, PubInject::Block, PubInject::Asset, PubInject::Fee][vi % 4];
            let mut inners = random_inners(&mut rng, m, n, if vi >= pub_vectors { PubInject::None } else { inj });
            if vi >= pub_vectors {
                let j = vi - pub_vectors;
                rep.count("public_vectors_shape");
                for (i, inner) in inners.iter_mut().enumerate() {
                    let keep_real = j >= 2 && i == j - 2;
                    if keep_real {
                        if inner[3..7].iter().all(|x| *x == F::ZERO) {
                            inner[3] = f(rng.gen_range(1..P));
                        }
                    } else {
                        for k in 3..7 {
                            inner[k] = F::ZERO;
                        }
                        if j == 0 {
                            // a well-formed all-zero dummy inner apart from the constant header fields
                            for k in 1..inner.len() {
                                if k != 0 {
                                    inner[k] = F::ZERO;
                                }
                            }
                        }
                    }
                }
            }
            let addr = rand_d4(&mut rng);
            let pins = w.pins(&inners, &addr);
            let honest = w.cso.run(&[], &pins, false);
            let honest_acc = w.cso.eval(&honest).accepted();
            let honest_pis = w.cso.public_inputs(&honest);
            let jin: Vec<Vec<F>> = w.child.iter().map(|ts| w.cso.get_many(&honest, ts)).collect();
            rep.count(if honest_acc { "public_vectors_honest_accepted" } else { "public_vectors_honest_rejected" });
            let on_accept = |r: &crate::cso::Run, gi: usize, set: &[(Target, F)]| {
                let jin2: Vec<Vec<F>> = w.child.iter().map(|ts| w.cso.get_many(r, ts)).collect();
                if jin2 != jin || w.cso.get_many(r, &w.addr) != w.cso.get_many(&honest, &w.addr) {
                    return;
                }
                let pis = w.cso.public_inputs(r);
                let what = if !honest_acc { Some("a batch whose honest witness fails becomes satisfiable") } else if pis != honest_pis { Some("an accepted witness yields a different public output") } else { None };
                match what {
                    None => rep.count("override_accepted_benign"),
                    Some(msg) => {
                        let (ok, _) = w.cso.confirm(r);
                        if !ok {
                            rep.inconclusive("CSO accepted an overridden wrapper witness that the real verifier rejects");
                            return;
                        }
                        rep.violation(&format!("witness-freedom / public wrapper ({})", w.cso.gen_ids[gi]),
                            &format!("public-batch wrapper M={m},N={n}: with hints of generator {} ({}) overridden, {msg}", gi, w.cso.gen_ids[gi]),
                            json!({"inners": inners.iter().map(|c| c.iter().map(|x| u(*x)).collect::<Vec<_>>()).collect::<Vec<_>>(),
                                "override": set.iter().map(|(t, v)| json!([format!("{t:?}"), u(*v)])).collect::<Vec<_>>()}));
                    }
                }
            };
            hints::sweep(&w.cso, &[], &pins, if vi >= pub_vectors { 1 } else { ctx.tier.pick(2, 1) }, vi, thorough, &rep, &on_accept);
        }
    }
    // gadget: digest equality on equal / one-limb-neighbour / several-limb / alias pairs, every generator overridden
    match DigestEqCircuit::build() {
        None => rep.inconclusive("digest equality gadget circuit did not build"),
        Some(dc) => {
            rep.add("digest_eq_generators", dc.cso.gen_ids.len() as u64);
            for round in 0..ctx.tier.pick(1u64, 6) {
                let mut rng = ctx.sub_rng("gadget-deq", round);
                for (i, (a, c)) in digest_eq_pairs(&mut rng).iter().enumerate() {
                    judge_digest_eq(&rep, &dc, a, c, thorough, if thorough || i % 7 == 0 { ctx.tier.pick(300, 3000) } else { 0 });
                    rep.count("digest_eq_pairs_judged");
                }
            }
        }
    }
    // gadgets: less-than at the widths the circuits use (n_log=5 in the leaf; 64 via canonical halves) and sort
    for (wd, c) in [(5usize, 16usize), (5, 3), (64, 0), (64, (P - 2) as usize), (32, 7)] {
        if let Some(lc) = LtCircuit::build(wd, c, false) {
            let mut rng = ctx.rng("gadget-lt");
            for x in lt_values(wd, c as u64, &mut rng) {
                judge_lt(&rep, &lc, x, true, thorough);
                if thorough || x < 4 {
                    let pins = vec![(lc.x, f(x))];
                    let on_pair = |r: &crate::cso::Run, set: &[(Target, F)]| {
                        let p = lc.cso.public_inputs(r);
                        let (sat, out) = lt_model(wd, c as u64, u(p[0]), false);
                        if !sat || out != Some(u(p[1])) {
                            let (ok, _) = lc.cso.confirm(r);
                            if ok {
                                rep.violation("witness-freedom / less-than gadget (pair override)", &format!("a pair of hint overrides makes the less-than gadget (width {wd}, constant {c}) accept value {} with output {}", u(p[0]), u(p[1])),
                                    json!({"override": set.iter().map(|(t, v)| json!([format!("{t:?}"), u(*v)])).collect::<Vec<_>>()}));
                            }
                        }
                    };
                    hints::sweep_pairs(&lc.cso, &pins, ctx.tier.pick(2000, 40000), &rep, &on_pair);
                }
            }
        }
    }
    for n in [2usize, 3] {
        if let Some(sc) = SortCircuit::build(n) {
            for i in 0..ctx.tier.pick(4usize, 30) {
                let mut rng = ctx.sub_rng("gadget-sort", (n * 1000 + i) as u64);
                let v: Vec<D4> = (0..n).map(|_| { let mut d = rand_d4(&mut rng); if rng.gen_bool(0.5) { d[0] = f(3); } d }).collect();
                judge_sort(&rep, &sc, &v, true, thorough);
            }
        }
    }
    rep.finish(ctx, ctx.tier.pick(2000, 50000))
}
