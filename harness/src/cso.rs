//! E1: constraint-satisfaction oracle over circuits built by the repository's
//! own builder code.
//!
//! * lenient witness generation (pinned values win, conflicts are logged,
//!   panicking / erroring generators leave their outputs unset = 0),
//! * evaluation of every gate constraint on every row with plonky2's own
//!   `Gate::eval_filtered_base_batch`,
//! * confirmation through the real `prove_with_partition_witness` + `verify`.

use anyhow::{bail, Result};
use plonky2::field::types::Field;
use plonky2::hash::hash_types::HashOut;
use plonky2::iop::generator::GeneratedValues;
use plonky2::iop::target::Target;
use plonky2::iop::witness::{PartitionWitness, Witness};
use plonky2::plonk::circuit_data::CircuitData;
use plonky2::plonk::config::{GenericConfig, Hasher};
use plonky2::plonk::proof::ProofWithPublicInputs;
use plonky2::plonk::prover::prove_with_partition_witness;
use plonky2::plonk::vars::EvaluationVarsBaseBatch;
use plonky2::util::timing::TimingTree;
use rayon::prelude::*;
use std::panic::{catch_unwind, AssertUnwindSafe};
use zk_circuits_common::circuit::{C, D, F};

pub struct Cso {
    pub data: CircuitData<F, C, D>,
    /// constants[c][row]
    consts: Vec<Vec<F>>,
    pub degree: usize,
    pub num_wires: usize,
    pub gen_ids: Vec<String>,
    pub gate_ids: Vec<String>,
}

#[derive(Clone, Debug)]
pub struct Conflict {
    pub target: Target,
    pub kept: F,
    pub dropped: F,
    /// None = pin, Some(i) = generator i
    pub source: Option<usize>,
}

pub struct Run<'a> {
    pub pw: PartitionWitness<'a, F>,
    pub conflicts: Vec<Conflict>,
    /// per generator: outputs it produced (only when recording)
    pub gen_outputs: Vec<Vec<(Target, F)>>,
    pub gens_not_run: usize,
    pub gens_panicked: usize,
}

#[derive(Clone, Debug, Default)]
pub struct Eval {
    /// (row, gate index) pairs with a non-zero constraint
    pub failing: Vec<(usize, usize)>,
}

impl Eval {
    pub fn accepted(&self) -> bool {
        self.failing.is_empty()
    }
    pub fn failing_rows(&self) -> usize {
        let mut rows: Vec<usize> = self.failing.iter().map(|x| x.0).collect();
        rows.sort();
        rows.dedup();
        rows.len()
    }
}

impl Cso {
    pub fn new(data: CircuitData<F, C, D>) -> Result<Self> {
        if !data.common.luts.is_empty() {
            bail!("circuit uses lookup tables; CSO does not evaluate lookup arguments");
        }
        let degree = data.common.degree();
        let num_wires = data.common.config.num_wires;
        let nc = data.common.num_constants;
        let consts: Vec<Vec<F>> = (0..nc)
            .map(|j| {
                data.prover_only.constants_sigmas_commitment.polynomials[j]
                    .clone()
                    .fft()
                    .values
            })
            .collect();
        for c in &consts {
            if c.len() != degree {
                bail!("constant polynomial length {} != degree {}", c.len(), degree);
            }
        }
        let gen_ids = data
            .prover_only
            .generators
            .iter()
            .map(|g| {
                let id = g.0.id();
                id.split('<').next().unwrap_or("").trim().to_string()
            })
            .collect();
        let gate_ids = data
            .common
            .gates
            .iter()
            .map(|g| {
                let id = g.0.id();
                id.split(|c| c == '<' || c == '{' || c == '(')
                    .next()
                    .unwrap_or("")
                    .trim()
                    .to_string()
            })
            .collect();
        Ok(Self {
            data,
            consts,
            degree,
            num_wires,
            gen_ids,
            gate_ids,
        })
    }

    pub fn target_index(&self, t: Target) -> usize {
        t.index(self.num_wires, self.degree)
    }

    pub fn rep(&self, t: Target) -> usize {
        self.data.prover_only.representative_map[self.target_index(t)]
    }

    pub fn same_partition(&self, a: Target, b: Target) -> bool {
        self.rep(a) == self.rep(b)
    }

    /// Lenient witness generation: `pre` pins are applied first (hint
    /// overrides), then `pins` (inputs), then the generators.
    pub fn run<'a>(&'a self, pre: &[(Target, F)], pins: &[(Target, F)], record: bool) -> Run<'a> {
        let po = &self.data.prover_only;
        let generators = &po.generators;
        let mut pw = PartitionWitness::new(self.num_wires, self.degree, &po.representative_map);
        let mut conflicts = vec![];
        for &(t, v) in pre.iter().chain(pins.iter()) {
            let rep = po.representative_map[self.target_index(t)];
            match pw.values[rep] {
                Some(old) if old != v => conflicts.push(Conflict {
                    target: t,
                    kept: old,
                    dropped: v,
                    source: None,
                }),
                Some(_) => {}
                None => pw.values[rep] = Some(v),
            }
        }
        let mut gen_outputs: Vec<Vec<(Target, F)>> = if record {
            vec![vec![]; generators.len()]
        } else {
            vec![]
        };
        let mut pending: Vec<usize> = (0..generators.len()).collect();
        let mut expired = vec![false; generators.len()];
        let mut remaining = generators.len();
        let mut panicked = 0usize;
        let mut buffer = GeneratedValues::empty();
        while !pending.is_empty() {
            let mut next = Vec::new();
            for &gi in &pending {
                if expired[gi] {
                    continue;
                }
                let res = catch_unwind(AssertUnwindSafe(|| generators[gi].0.run(&pw, &mut buffer)));
                let finished = match res {
                    Ok(f) => f,
                    Err(_) => {
                        buffer.target_values.clear();
                        panicked += 1;
                        true
                    }
                };
                if finished {
                    expired[gi] = true;
                    remaining -= 1;
                }
                for (t, v) in buffer.target_values.drain(..) {
                    if record {
                        gen_outputs[gi].push((t, v));
                    }
                    let rep = po.representative_map[t.index(self.num_wires, self.degree)];
                    match pw.values[rep] {
                        Some(old) => {
                            if old != v {
                                conflicts.push(Conflict {
                                    target: t,
                                    kept: old,
                                    dropped: v,
                                    source: Some(gi),
                                });
                            }
                        }
                        None => {
                            pw.values[rep] = Some(v);
                            if let Some(ws) = po.generator_indices_by_watches.get(&rep) {
                                for &w in ws {
                                    if !expired[w] {
                                        next.push(w);
                                    }
                                }
                            }
                        }
                    }
                }
            }
            pending = next;
        }
        Run {
            pw,
            conflicts,
            gen_outputs,
            gens_not_run: remaining,
            gens_panicked: panicked,
        }
    }

    /// value of a target in the judged assignment (unset partitions read as 0,
    /// exactly as `full_witness` does)
    pub fn get(&self, run: &Run, t: Target) -> F {
        run.pw.values[self.rep(t)].unwrap_or(F::ZERO)
    }

    pub fn get_many(&self, run: &Run, ts: &[Target]) -> Vec<F> {
        ts.iter().map(|&t| self.get(run, t)).collect()
    }

    pub fn is_set(&self, run: &Run, t: Target) -> bool {
        run.pw.values[self.rep(t)].is_some()
    }

    pub fn public_inputs(&self, run: &Run) -> Vec<F> {
        self.get_many(run, &self.data.prover_only.public_inputs)
    }

    /// Evaluate every gate constraint of every row on the assignment.
    pub fn eval(&self, run: &Run) -> Eval {
        let common = &self.data.common;
        let pis = self.public_inputs(run);
        let pih: HashOut<F> = <<C as GenericConfig<D>>::InnerHasher as Hasher<F>>::hash_no_pad(&pis);
        let nw = self.num_wires;
        let nc = self.consts.len();
        let rep_map = &self.data.prover_only.representative_map;
        let values = &run.pw.values;
        const B: usize = 64;
        let chunks: Vec<usize> = (0..self.degree).step_by(B).collect();
        let eval_chunk = |start: &usize| -> Vec<(usize, usize)> {
            let start = *start;
            let bs = B.min(self.degree - start);
            let mut lc = vec![F::ZERO; nc * bs];
            let mut lw = vec![F::ZERO; nw * bs];
            for k in 0..bs {
                let row = start + k;
                for c in 0..nc {
                    lc[c * bs + k] = self.consts[c][row];
                }
                let base = row * nw;
                for w in 0..nw {
                    if let Some(v) = values[rep_map[base + w]] {
                        lw[w * bs + k] = v;
                    }
                }
            }
            let vars = EvaluationVarsBaseBatch::new(bs, &lc, &lw, &pih);
            let mut out = vec![];
            for (i, gate) in common.gates.iter().enumerate() {
                let sel = common.selectors_info.selector_indices[i];
                let res = gate.0.eval_filtered_base_batch(
                    vars,
                    i,
                    sel,
                    common.selectors_info.groups[sel].clone(),
                    common.selectors_info.num_selectors(),
                    common.num_lookup_selectors,
                );
                let ncons = res.len() / bs;
                for k in 0..bs {
                    let mut bad = false;
                    for j in 0..ncons {
                        if res[j * bs + k] != F::ZERO {
                            bad = true;
                            break;
                        }
                    }
                    if bad {
                        out.push((start + k, i));
                    }
                }
            }
            out
        };
        let failing: Vec<(usize, usize)> = if self.degree >= 4096 {
            chunks.par_iter().flat_map_iter(|s| eval_chunk(s)).collect()
        } else {
            chunks.iter().flat_map(|s| eval_chunk(s)).collect()
        };
        Eval { failing }
    }

    /// Real prover + real verifier on the judged assignment.
    pub fn confirm(&self, run: &Run) -> (bool, Option<ProofWithPublicInputs<F, C, D>>) {
        let pw = run.pw.clone();
        let res = catch_unwind(AssertUnwindSafe(|| {
            prove_with_partition_witness(
                &self.data.prover_only,
                &self.data.common,
                pw,
                &mut TimingTree::default(),
            )
        }));
        match res {
            Ok(Ok(proof)) => {
                let ok = catch_unwind(AssertUnwindSafe(|| self.data.verify(proof.clone()).is_ok()))
                    .unwrap_or(false);
                (ok, Some(proof))
            }
            _ => (false, None),
        }
    }

    /// representatives written by RandomValueGenerator in a recorded run (they differ from run to run
    /// and must be ignored when deciding whether an override changed the assignment)
    pub fn random_reps(&self, recorded: &Run) -> std::collections::HashSet<usize> {
        let mut s = std::collections::HashSet::new();
        for (gi, outs) in recorded.gen_outputs.iter().enumerate() {
            if self.gen_ids[gi].starts_with("RandomValueGenerator") {
                for (t, _) in outs {
                    s.insert(self.rep(*t));
                }
            }
        }
        s
    }

    /// true iff the two assignments differ outside the masked representatives
    pub fn differs(&self, a: &[Option<F>], b: &[Option<F>], mask: &std::collections::HashSet<usize>) -> bool {
        if mask.is_empty() {
            return a != b;
        }
        a.iter().zip(b.iter()).enumerate().any(|(i, (x, y))| x != y && !mask.contains(&i))
    }

    pub fn gate_name(&self, i: usize) -> &str {
        &self.gate_ids[i]
    }

    /// Free-input audit: virtual-target partitions that are unset after a
    /// lenient run and that no generator produces when every candidate is
    /// pinned to zero. These are prover-controlled inputs the honest filler
    /// does not know about.
    pub fn free_inputs(&self, pins: &[(Target, F)], num_virtual: usize) -> Vec<Target> {
        let run = self.run(&[], pins, false);
        let mut cands: Vec<Target> = vec![];
        let mut seen = std::collections::HashSet::new();
        for i in 0..num_virtual {
            let t = Target::VirtualTarget { index: i };
            let idx = self.target_index(t);
            if idx >= self.data.prover_only.representative_map.len() {
                break;
            }
            let rep = self.data.prover_only.representative_map[idx];
            if run.pw.values[rep].is_none() && seen.insert(rep) {
                cands.push(t);
            }
        }
        if cands.is_empty() {
            return cands;
        }
        // second run: pin zeros on candidates, record produced partitions
        let pre: Vec<(Target, F)> = cands.iter().map(|&t| (t, F::ZERO)).collect();
        let run2 = self.run(&pre, pins, true);
        let mut produced = std::collections::HashSet::new();
        for outs in &run2.gen_outputs {
            for (t, _) in outs {
                produced.insert(self.rep(*t));
            }
        }
        cands.into_iter().filter(|t| !produced.contains(&self.rep(*t))).collect()
    }

    /// number of virtual targets = (len(rep_map) - degree*num_wires)
    pub fn num_virtual_targets(&self) -> usize {
        self.data.prover_only.representative_map.len() - self.degree * self.num_wires
    }
}

pub fn f(v: u64) -> F {
    F::from_noncanonical_u64(v)
}

pub fn u(v: F) -> u64 {
    use plonky2::field::types::PrimeField64;
    v.to_canonical_u64()
}

/// helper used by witnesses that are written through the ordinary PartialWitness API
pub fn pins_from_partial(pw: &plonky2::iop::witness::PartialWitness<F>) -> Vec<(Target, F)> {
    pw.target_values.iter().map(|(t, v)| (*t, *v)).collect()
}

#[allow(dead_code)]
fn _assert_witness_trait(pw: &PartitionWitness<F>, t: Target) -> Option<F> {
    pw.try_get_target(t)
}
