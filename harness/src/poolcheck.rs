//! C19–C22: the proof pool against a sequential reference model, under an exact virtual clock,
//! observing internal state through hook H5 after every operation.

use crate::cso::{f, u};
use crate::leaf::P;
use crate::util::{Ctx, Report};
use crate::vclock;
use plonky2::field::types::Field;
use plonky2::iop::witness::{PartialWitness, WitnessWrite};
use plonky2::plonk::circuit_builder::CircuitBuilder;
use plonky2::plonk::circuit_data::{CircuitConfig, CircuitData};
use plonky2::plonk::proof::ProofWithPublicInputs;
use qp_wormhole_inputs::BytesDigest;
use rand::Rng;
use rayon::prelude::*;
use serde_json::{json, Value};
use std::collections::{BTreeMap, HashSet};
use std::panic::{catch_unwind, AssertUnwindSafe};
use std::time::{Duration, Instant};
use wormhole_aggregator::pool::{BatchKey, PoolLimits, ProofPool, VERIF_VERIFY_CALLS};
use wormhole_aggregator::public_batch::prover::lib::verif_preflight_private_batch_proofs;
use zk_circuits_common::circuit::{C, D, F};

type Proof = ProofWithPublicInputs<F, C, D>;
type Key = ([u8; 32], u64, u64);

fn dig(v: &[u64]) -> [u8; 32] {
    let mut b = [0u8; 32];
    for i in 0..4 {
        b[i * 8..i * 8 + 8].copy_from_slice(&v[i].to_le_bytes());
    }
    b
}

#[derive(Clone, Copy, Debug, PartialEq, Eq, PartialOrd, Ord, Hash)]
pub enum Class {
    Admitted,
    Full,
    Shape,
    Dummy,
    Budget,
    Invalid,
    BucketLimit,
    Duplicate,
    Other,
}

fn classify(err: &str) -> Class {
    let e = err.to_lowercase();
    if e.contains("pool is full") {
        Class::Full
    } else if e.contains("length mismatch") || e.contains("failed to parse") {
        Class::Shape
    } else if e.contains("all-dummy") {
        Class::Dummy
    } else if e.contains("budget exhausted") {
        Class::Budget
    } else if e.contains("verification failed") {
        Class::Invalid
    } else if e.contains("bucket limit") {
        Class::BucketLimit
    } else if e.contains("already staged") {
        Class::Duplicate
    } else {
        Class::Other
    }
}

pub struct Item {
    pub proof: Proof,
    pub pis: Vec<u64>,
    pub len_ok: bool,
    pub verifies: bool,
    pub key: Key,
    pub nullifiers: Vec<[u8; 32]>,
    pub volume: u64,
    pub kind: &'static str,
}

pub struct Catalogue {
    pub data: CircuitData<F, C, D>,
    pub n: usize,
    pub items: Vec<Item>,
    pub universe: Vec<[u8; 32]>,
}

fn pi_len(n: usize) -> usize {
    21 * n + 8
}

fn parse_item(pis: &[u64], n: usize) -> (Key, Vec<[u8; 32]>, u64) {
    let key = (dig(&pis[3..7]), pis[1], pis[2]);
    let ns = 8 + 10 * n;
    let nulls = (0..n).map(|i| dig(&pis[ns + 4 * i..ns + 4 * i + 4])).collect();
    let vol = (0..2 * n).fold(0u64, |a, k| a.saturating_add(pis[8 + 5 * k]));
    (key, nulls, vol)
}

/// expiry cut-off encoded in an op: plain nanoseconds, or one of the extreme durations a caller may use as "never"
fn age_duration(a: u64) -> Duration {
    match a {
        u64::MAX => Duration::MAX,
        x if x == u64::MAX - 1 => Duration::from_secs(u64::MAX),
        x if x == u64::MAX - 2 => Duration::from_secs(i64::MAX as u64),
        x if x == u64::MAX - 3 => Duration::from_secs(1 << 40),
        x => Duration::from_nanos(x),
    }
}

pub fn build_catalogue(ctx: &Ctx, n: usize, count: usize) -> Catalogue {
    let mut b = CircuitBuilder::<F, D>::new(CircuitConfig::standard_recursion_config());
    let ts = b.add_virtual_targets(pi_len(n));
    b.range_check(ts[0], 32);
    b.register_public_inputs(&ts);
    let data = b.build::<C>();
    let mut rng = ctx.rng(&format!("catalogue{n}"));
    let mut universe: Vec<[u64; 4]> = (0..9).map(|_| [rng.gen_range(0..P), rng.gen_range(0..P), rng.gen_range(0..P), rng.gen_range(0..P)]).collect();
    // one-limb neighbours of a nullifier in use (every limb position): an index keyed on part of the digest confuses them
    for k in 0..4 {
        let mut nb = universe[0];
        nb[k] = (nb[k] + 1 + rng.gen_range(0..3)) % P;
        universe.push(nb);
    }
    // bucket keys that differ from one another in a single limb only
    let blocks: Vec<[u64; 4]> = vec![[1, 0, 0, 0], [0, 0, 0, 9], [1, 0, 0, 9], [rng.gen_range(0..P), rng.gen_range(0..P), 5, P - 1]];
    let specs: Vec<(Vec<u64>, &'static str)> = (0..count)
        .map(|i| {
            let mut v = vec![0u64; pi_len(n)];
            v[0] = 2 * n as u64;
            v[1] = *[0u64, 7].get(rng.gen_range(0..2)).unwrap();
            v[2] = *[0u64, 10].get(rng.gen_range(0..2)).unwrap();
            let dummy = i % 17 == 5;
            let blk = if dummy { [0u64; 4] } else { blocks[rng.gen_range(0..blocks.len())] };
            v[3..7].copy_from_slice(&blk);
            v[7] = rng.gen_range(0..1 << 32);
            for k in 0..2 * n {
                v[8 + 5 * k] = match rng.gen_range(0..6) {
                    0 => P - 1,
                    1 => 0,
                    2 => (1 << 63) + 5,
                    _ => rng.gen_range(0..1 << 32),
                };
                for j in 0..4 {
                    v[9 + 5 * k + j] = rng.gen_range(0..P);
                }
            }
            let ns = 8 + 10 * n;
            let first = universe[rng.gen_range(0..universe.len())];
            for i2 in 0..n {
                let nl = if i2 > 0 && rng.gen_bool(0.25) { first } else if i2 == 0 { first } else { universe[rng.gen_range(0..universe.len())] };
                v[ns + 4 * i2..ns + 4 * i2 + 4].copy_from_slice(&nl);
            }
            (v, if dummy { "dummy-key" } else { "valid" })
        })
        .collect();
    let proofs: Vec<Proof> = specs
        .par_iter()
        .map(|(v, _)| {
            let mut pw = PartialWitness::new();
            for (t, x) in ts.iter().zip(v) {
                pw.set_target(*t, f(*x)).unwrap();
            }
            data.prove(pw).unwrap()
        })
        .collect();
    let mut items: Vec<Item> = vec![];
    for ((v, kind), proof) in specs.into_iter().zip(proofs) {
        let (key, nullifiers, volume) = parse_item(&v, n);
        items.push(Item { proof, pis: v, len_ok: true, verifies: true, key, nullifiers, volume, kind });
    }
    // tampered and wrong-length variants
    let base = items.len();
    for i in 0..base / 5 {
        let src = &items[(i * 7) % base];
        let mut proof = src.proof.clone();
        let mut pis = src.pis.clone();
        let ns = 8 + 10 * n;
        let pos = match i % 4 {
            0 => ns,     // nullifier
            1 => 3,      // block hash
            2 => 8,      // volume
            _ => 1,      // asset
        };
        pis[pos] = (pis[pos] + 1 + i as u64) % P;
        if pos == 3 && pis[3..7] == [0, 0, 0, 0] {
            pis[3] = 77;
        }
        proof.public_inputs[pos] = f(pis[pos]);
        let (key, nullifiers, volume) = parse_item(&pis, n);
        items.push(Item { proof, pis, len_ok: true, verifies: false, key, nullifiers, volume, kind: "tampered" });
    }
    for i in 0..6 {
        let src = &items[(i * 11) % base];
        let mut proof = src.proof.clone();
        let mut pis = src.pis.clone();
        if i % 2 == 0 {
            proof.public_inputs.push(F::ZERO);
            pis.push(0);
        } else {
            proof.public_inputs.pop();
            pis.pop();
        }
        items.push(Item { proof, pis, len_ok: false, verifies: false, key: src.key, nullifiers: src.nullifiers.clone(), volume: src.volume, kind: "wrong-length" });
    }
    // ground truth for "verifies" from the verifier itself
    let vd = data.verifier_data();
    for it in items.iter_mut() {
        if it.len_ok {
            it.verifies = vd.verify(it.proof.clone()).is_ok();
        }
    }
    Catalogue { data, n, items, universe: universe.iter().map(|x| dig(x)).collect() }
}

#[derive(Clone, Debug)]
struct MProof {
    item: usize,
    admitted_ns: u64,
}
#[derive(Clone, Debug, Default)]
struct MBucket {
    proofs: Vec<MProof>,
    last_snapshot_ns: Option<u64>,
}
#[derive(Clone, Debug)]
struct Model {
    buckets: BTreeMap<Key, MBucket>,
    index: BTreeMap<[u8; 32], Key>,
    window_start_ns: u64,
    verifies: usize,
}

#[derive(Clone, Copy, Debug)]
struct Limits {
    max_proofs: usize,
    max_buckets: usize,
    max_verifies: usize,
    window_ns: u64,
    batch: usize,
}

impl Model {
    fn len(&self) -> usize {
        self.buckets.values().map(|b| b.proofs.len()).sum()
    }
    /// returns (class, verification attempted)
    fn push(&mut self, cat: &Catalogue, idx: usize, lim: &Limits, now: u64) -> (Class, bool) {
        let it = &cat.items[idx];
        if self.len() >= lim.max_proofs {
            return (Class::Full, false);
        }
        if !it.len_ok {
            return (Class::Shape, false);
        }
        if it.key.0 == [0u8; 32] {
            return (Class::Dummy, false);
        }
        if now - self.window_start_ns >= lim.window_ns {
            self.window_start_ns = now;
            self.verifies = 0;
        }
        if self.verifies >= lim.max_verifies {
            return (Class::Budget, false);
        }
        self.verifies += 1;
        if !it.verifies {
            return (Class::Invalid, true);
        }
        if !self.buckets.contains_key(&it.key) && self.buckets.len() >= lim.max_buckets {
            return (Class::BucketLimit, true);
        }
        if it.nullifiers.iter().any(|nl| self.index.contains_key(nl)) {
            return (Class::Duplicate, true);
        }
        for nl in &it.nullifiers {
            self.index.insert(*nl, it.key);
        }
        self.buckets.entry(it.key).or_default().proofs.push(MProof { item: idx, admitted_ns: now });
        (Class::Admitted, true)
    }
    fn evict<Fp: Fn(&MProof) -> bool>(&mut self, cat: &Catalogue, pred: Fp) -> usize {
        let mut n = 0;
        let index = &mut self.index;
        self.buckets.retain(|_, b| {
            b.proofs.retain(|p| {
                let gone = pred(p);
                if gone {
                    n += 1;
                    for nl in &cat.items[p.item].nullifiers {
                        index.remove(nl);
                    }
                }
                !gone
            });
            !b.proofs.is_empty()
        });
        n
    }
}

fn bkey(k: &BatchKey) -> Key {
    (*k.block_hash, k.asset_id, k.volume_fee_bps)
}
fn to_batch_key(k: &Key) -> BatchKey {
    BatchKey { block_hash: BytesDigest::new_unchecked(k.0), asset_id: k.1, volume_fee_bps: k.2 }
}

#[derive(Clone, Debug)]
enum Op {
    Push(usize),
    Advance(u64),
    EvictSettled(Vec<usize>),
    EvictOlder(u64),
    Snapshot(Key),
    RemoveBucket(Key),
    Stats,
}

fn owner(cat: &str) -> &'static str {
    match cat {
        "push-result" | "push-order" | "reject-changes-state" | "push-state" => "C19",
        "invariant" | "stats" | "limits" => "C20",
        "removal" | "snapshot" | "preflight" | "unexpected-disappearance" => "C21",
        "verify-count" | "budget" | "window" => "C22",
        _ => "C19",
    }
}

struct Diverge {
    cat: &'static str,
    what: String,
}

/// compare the H5 view with the model; returns divergences
fn compare_state(pool: &ProofPool, m: &Model, cat: &Catalogue, lim: &Limits, now: u64, now_inst: Instant) -> Vec<Diverge> {
    let mut d = vec![];
    let v = pool.verif_view();
    let age = |i: Instant| now_inst.saturating_duration_since(i).as_nanos() as u64;
    // structural invariants on the view itself (C20)
    let mut seen: HashSet<[u8; 32]> = HashSet::new();
    let mut want_index: BTreeMap<[u8; 32], Key> = BTreeMap::new();
    let mut total = 0usize;
    for b in &v.buckets {
        if b.proofs.is_empty() {
            d.push(Diverge { cat: "invariant", what: format!("empty bucket {:?} is resident", bkey(&b.key)) });
        }
        for p in &b.proofs {
            total += 1;
            let (k, nulls, vol) = parse_item(&p.public_inputs, cat.n);
            if k != bkey(&b.key) {
                d.push(Diverge { cat: "invariant", what: "a pooled proof sits in a bucket that is not its own key".into() });
            }
            if vol != p.volume || nulls.iter().map(|x| *x).collect::<Vec<_>>() != p.nullifiers.iter().map(|x| **x).collect::<Vec<_>>() {
                d.push(Diverge { cat: "invariant", what: "cached nullifiers/volume of a pooled proof differ from its public inputs".into() });
            }
            let mut own: HashSet<[u8; 32]> = HashSet::new();
            for nl in &nulls {
                if !own.insert(*nl) {
                    continue; // the same nullifier twice inside one proof
                }
                if !seen.insert(*nl) {
                    d.push(Diverge { cat: "invariant", what: "two pooled proofs share a nullifier".into() });
                }
                want_index.insert(*nl, k);
            }
        }
    }
    let got_index: BTreeMap<[u8; 32], Key> = v.nullifier_index.iter().map(|(n, k)| (**n, bkey(k))).collect();
    if got_index != want_index {
        d.push(Diverge { cat: "invariant", what: format!("nullifier index ({} entries) is not exactly the nullifiers of the pooled proofs ({} entries) mapped to their buckets", got_index.len(), want_index.len()) });
    }
    if total > lim.max_proofs || v.buckets.len() > lim.max_buckets {
        d.push(Diverge { cat: "limits", what: format!("{} proofs / {} buckets exceed limits {} / {}", total, v.buckets.len(), lim.max_proofs, lim.max_buckets) });
    }
    if pool.len() != total || pool.num_buckets() != v.buckets.len() || pool.is_empty() != v.buckets.is_empty() {
        d.push(Diverge { cat: "stats", what: "len()/num_buckets()/is_empty() disagree with the pooled contents".into() });
    }
    // model equality
    let got_keys: Vec<Key> = v.buckets.iter().map(|b| bkey(&b.key)).collect();
    let want_keys: Vec<Key> = m.buckets.keys().cloned().collect();
    if got_keys != want_keys {
        d.push(Diverge { cat: "state", what: format!("bucket keys differ from the model: got {} buckets, model {}", got_keys.len(), want_keys.len()) });
    } else {
        for (b, (_, mb)) in v.buckets.iter().zip(m.buckets.iter()) {
            if b.proofs.len() != mb.proofs.len() {
                d.push(Diverge { cat: "state", what: format!("bucket holds {} proofs, model {}", b.proofs.len(), mb.proofs.len()) });
                continue;
            }
            for (p, mp) in b.proofs.iter().zip(&mb.proofs) {
                if p.public_inputs != cat.items[mp.item].pis {
                    d.push(Diverge { cat: "state", what: "bucket order/content differs from admission order in the model".into() });
                }
                if age(p.admitted_at) != now - mp.admitted_ns {
                    d.push(Diverge { cat: "state", what: format!("admission time differs: age {} ns vs model {} ns", age(p.admitted_at), now - mp.admitted_ns) });
                }
            }
            if b.last_snapshot_at.map(age) != mb.last_snapshot_ns.map(|s| now - s) {
                d.push(Diverge { cat: "snapshot", what: "last snapshot time differs from the model".into() });
            }
        }
    }
    if v.verifies_in_window != m.verifies {
        d.push(Diverge { cat: "budget", what: format!("verifies_in_window = {} but {} verifications were attempted in the model's current window", v.verifies_in_window, m.verifies) });
    }
    if age(v.verify_window_started) != now - m.window_start_ns {
        d.push(Diverge { cat: "window", what: format!("verification window started {} ns ago, model says {} ns ago", age(v.verify_window_started), now - m.window_start_ns) });
    }
    // statistics must match the POOLED CONTENTS (the H5 view), whatever the model says; volumes are recomputed
    // from the pooled proofs' public inputs, ages from their admission instants
    let stats = pool.bucket_stats();
    if stats.len() != v.buckets.len() {
        d.push(Diverge { cat: "stats", what: "bucket_stats has a different number of buckets than the pool holds".into() });
    } else {
        for (s, b) in stats.iter().zip(v.buckets.iter()) {
            let vol = b.proofs.iter().fold(0u64, |a, p| a.saturating_add(parse_item(&p.public_inputs, cat.n).2));
            let oldest = b.proofs.iter().map(|p| age(p.admitted_at)).max().unwrap_or(0);
            let ok = s.key == b.key
                && s.num_proofs == b.proofs.len()
                && s.batch_size == lim.batch
                && s.total_volume == vol
                && s.oldest_age.as_nanos() as u64 == oldest
                && s.last_snapshot_age.map(|x| x.as_nanos() as u64) == b.last_snapshot_at.map(age)
                && s.is_full() == (b.proofs.len() >= lim.batch);
            if !ok {
                d.push(Diverge { cat: "stats", what: format!("bucket_stats differ from the pooled contents: got ({}, vol {}, oldest {:?}, snap {:?}) want ({}, vol {}, oldest {} ns)", s.num_proofs, s.total_volume, s.oldest_age, s.last_snapshot_age, b.proofs.len(), vol, oldest) });
            }
        }
    }
    d
}

fn op_json(op: &Op, cat: &Catalogue) -> Value {
    match op {
        Op::Push(i) => json!({"push": i, "kind": cat.items[*i].kind, "verifies": cat.items[*i].verifies}),
        Op::Advance(d) => json!({"advance_ns": d}),
        Op::EvictSettled(s) => json!({"evict_settled": s}),
        Op::EvictOlder(a) => json!({"evict_older_than_ns": a}),
        Op::Snapshot(k) => json!({"snapshot": hex::encode(&k.0[..4]), "asset": k.1, "fee": k.2}),
        Op::RemoveBucket(k) => json!({"remove_bucket": hex::encode(&k.0[..4]), "asset": k.1, "fee": k.2}),
        Op::Stats => json!("stats"),
    }
}

fn run_history(prop: &str, ctx: &Ctx, rep: &Report, cat: &Catalogue, hidx: u64) {
    let mut rng = ctx.sub_rng(&format!("hist{}", cat.n), hidx);
    let batch = rng.gen_range(1..=3usize);
    let lim = Limits {
        max_proofs: batch + rng.gen_range(0..4),
        max_buckets: rng.gen_range(1..=3),
        max_verifies: *[1usize, 2, 3, 5, 50, 50].get(rng.gen_range(0..6)).unwrap(),
        window_ns: if rng.gen_bool(0.5) { 1_000 } else { 1_000_000_000 },
        batch,
    };
    vclock::enable();
    let created = vclock::now_ns();
    let pool = ProofPool::new(
        cat.data.verifier_data(),
        cat.n,
        lim.batch,
        PoolLimits { max_proofs: lim.max_proofs, max_buckets: lim.max_buckets, max_verifies_per_window: lim.max_verifies, verify_window: Duration::from_nanos(lim.window_ns) },
    );
    let Ok(mut pool) = pool else {
        vclock::disable();
        rep.inconclusive("ProofPool::new failed for valid small limits");
        return;
    };
    let mut m = Model { buckets: BTreeMap::new(), index: BTreeMap::new(), window_start_ns: created, verifies: 0 };
    let nops = rng.gen_range(40..200usize);
    let mut trace: Vec<Value> = vec![];
    let mut window_calls: usize = 0; // observed calls inside the model's current window
    let mut state_fps: HashSet<u64> = HashSet::new();
    let vd = cat.data.verifier_data();
    let mut report = |cat_name: &'static str, what: String, trace: &Vec<Value>| {
        let own = owner(cat_name);
        if own == prop || (cat_name == "state" && prop == "C20") {
            rep.violation(&format!("pool / {cat_name}"), &what, json!({"limits": format!("{lim:?}"), "inner_num_leaves": cat.n, "history": trace}));
        } else {
            rep.count(&format!("divergence_owned_by_{own}"));
        }
    };
    for _ in 0..nops {
        let r = rng.gen_range(0..100);
        let present: Vec<Key> = m.buckets.keys().cloned().collect();
        let any_key = |rng: &mut rand_chacha::ChaCha8Rng| -> Key {
            if !present.is_empty() && rng.gen_bool(0.8) {
                present[rng.gen_range(0..present.len())]
            } else {
                cat.items[rng.gen_range(0..cat.items.len())].key
            }
        };
        let op = if r < 50 {
            Op::Push(rng.gen_range(0..cat.items.len()))
        } else if r < 65 {
            let w = lim.window_ns;
            let d = match rng.gen_range(0..7) {
                0 => 0,
                1 => 1,
                2 => w - 1,
                3 => w,
                4 => w + 1,
                5 => {
                    // land exactly on / one before the window boundary
                    let elapsed = vclock::now_ns() - m.window_start_ns;
                    if elapsed < w { w - elapsed - rng.gen_range(0..2) } else { 1 }
                }
                _ => rng.gen_range(0..3 * w),
            };
            Op::Advance(d)
        } else if r < 73 {
            let k = rng.gen_range(0..4);
            Op::EvictSettled((0..k).map(|_| rng.gen_range(0..cat.universe.len())).collect())
        } else if r < 80 {
            let now = vclock::now_ns();
            let ages: Vec<u64> = m.buckets.values().flat_map(|b| b.proofs.iter().map(|p| now - p.admitted_ns)).collect();
            let a = if ages.is_empty() || rng.gen_bool(0.25) {
                // incl. cut-offs that no proof can have reached ("never expire" sentinels, see `age_duration`)
                *[0u64, 1, u64::MAX / 4, u64::MAX, u64::MAX - 1, u64::MAX - 2, u64::MAX - 3].get(rng.gen_range(0..7)).unwrap()
            } else {
                let base = ages[rng.gen_range(0..ages.len())];
                match rng.gen_range(0..3) {
                    0 => base,
                    1 => base.saturating_sub(1),
                    _ => base + 1,
                }
            };
            Op::EvictOlder(a)
        } else if r < 88 {
            Op::Snapshot(any_key(&mut rng))
        } else if r < 92 {
            Op::RemoveBucket(any_key(&mut rng))
        } else {
            Op::Stats
        };
        trace.push(op_json(&op, cat));
        rep.eval();
        let now = vclock::now_ns();
        match &op {
            Op::Push(i) => {
                let before_model = m.clone();
                let c0 = VERIF_VERIFY_CALLS.with(|c| c.get());
                let res = catch_unwind(AssertUnwindSafe(|| pool.push(cat.items[*i].proof.clone())));
                let calls = VERIF_VERIFY_CALLS.with(|c| c.get()) - c0;
                let (mclass, attempted) = m.push(cat, *i, &lim, now);
                rep.count(&format!("push:{mclass:?}"));
                // model window bookkeeping for C22
                if m.window_start_ns != before_model.window_start_ns {
                    window_calls = 0;
                }
                window_calls += calls;
                match res {
                    Err(_) => report("push-result", "push panicked".into(), &trace),
                    Ok(r) => {
                        let got_ok = r.is_ok();
                        let want_ok = mclass == Class::Admitted;
                        if got_ok != want_ok {
                            report("push-result", format!("push of a {} proof was {} but the admission rules say {:?}", cat.items[*i].kind, if got_ok {"admitted"} else {"rejected"}, mclass), &trace);
                        } else if let Ok(k) = &r {
                            if bkey(k) != cat.items[*i].key {
                                report("push-result", "push returned a bucket key that is not the proof's key".into(), &trace);
                            }
                        } else if let Err(e) = &r {
                            let gc = classify(&e.to_string());
                            if gc != mclass {
                                // wording differences without behavioural difference are notes; the order of the rules is
                                // observed behaviourally through the verification counter below
                                rep.count("rejection_class_text_differs(note)");
                                rep.note(&format!("rejection text class {gc:?} vs model {mclass:?}: {}", e.to_string().chars().take(120).collect::<String>()));
                            }
                        }
                        if calls > 1 {
                            report("verify-count", format!("one push performed {calls} cryptographic verifications"), &trace);
                        }
                        if (calls == 1) != attempted {
                            let cat_name = if matches!(mclass, Class::Budget) { "budget" } else if matches!(mclass, Class::BucketLimit | Class::Duplicate | Class::Full | Class::Shape | Class::Dummy) { "push-order" } else { "verify-count" };
                            report(cat_name, format!("push classified {:?} by the rules performed {} verification(s); the rules say {}", mclass, calls, if attempted {"exactly one"} else {"none"}), &trace);
                        }
                        if window_calls > lim.max_verifies {
                            report("budget", format!("{} verifications inside one window, budget is {}", window_calls, lim.max_verifies), &trace);
                        }
                    }
                }
            }
            Op::Advance(d) => {
                vclock::advance_ns(*d);
            }
            Op::EvictSettled(sel) => {
                let set: HashSet<BytesDigest> = sel.iter().map(|i| BytesDigest::new_unchecked(cat.universe[*i])).collect();
                let raw: HashSet<[u8; 32]> = sel.iter().map(|i| cat.universe[*i]).collect();
                let got = pool.evict_settled(&set);
                let want = m.evict(cat, |p| cat.items[p.item].nullifiers.iter().any(|n| raw.contains(n)));
                if got != want {
                    report("removal", format!("evict_settled reported {got} evictions, {want} pooled proofs carry a settled nullifier"), &trace);
                }
                rep.count("op:evict_settled");
            }
            Op::EvictOlder(a) => {
                let dur = age_duration(*a);
                let got = pool.evict_older_than(dur);
                let want = m.evict(cat, |p| ((now - p.admitted_ns) as u128) > dur.as_nanos());
                if got != want {
                    report("removal", format!("evict_older_than({a} ns) reported {got} evictions, {want} pooled proofs are older"), &trace);
                }
                rep.count("op:evict_older_than");
            }
            Op::Snapshot(k) => {
                let got = pool.snapshot_batch(&to_batch_key(k));
                let want = m.buckets.get_mut(k).map(|b| {
                    b.last_snapshot_ns = Some(now);
                    b.proofs.iter().take(lim.batch).map(|p| p.item).collect::<Vec<_>>()
                });
                match (&got, &want) {
                    (None, None) => {}
                    (Some(g), Some(w)) => {
                        let same = g.len() == w.len() && g.iter().zip(w).all(|(p, i)| p.public_inputs.iter().map(|x| u(*x)).collect::<Vec<_>>() == cat.items[*i].pis);
                        if !same {
                            report("snapshot", format!("snapshot returned {} proofs that are not the oldest min(count,batch)={} in admission order", g.len(), w.len()), &trace);
                        }
                        if !g.is_empty() {
                            if let Err(e) = verif_preflight_private_batch_proofs(g, lim.batch, &vd) {
                                report("preflight", format!("public-batch preflight rejects a snapshot: {e}"), &trace);
                            }
                            rep.count("snapshots_preflighted");
                        }
                    }
                    _ => report("snapshot", "snapshot presence differs from the model (bucket exists vs not)".into(), &trace),
                }
                rep.count("op:snapshot");
            }
            Op::RemoveBucket(k) => {
                let got = pool.remove_bucket(&to_batch_key(k));
                let want: Vec<usize> = m.buckets.remove(k).map(|b| b.proofs.iter().map(|p| p.item).collect()).unwrap_or_default();
                for i in &want {
                    for nl in &cat.items[*i].nullifiers {
                        m.index.remove(nl);
                    }
                }
                let same = got.len() == want.len() && got.iter().zip(&want).all(|(p, i)| p.public_inputs.iter().map(|x| u(*x)).collect::<Vec<_>>() == cat.items[*i].pis);
                if !same {
                    report("removal", format!("remove_bucket returned {} proofs, the bucket held {}", got.len(), want.len()), &trace);
                }
                rep.count("op:remove_bucket");
            }
            Op::Stats => {
                rep.count("op:stats");
            }
        }
        // state comparison after every operation
        let now = vclock::now_ns();
        let divs = compare_state(&pool, &m, cat, &lim, now, Instant::now());
        // only a divergence of the pooled contents makes the rest of the history meaningless
        let had_div = divs.iter().any(|d| d.cat == "state");
        for dv in divs {
            let cat_name: &'static str = match (&op, dv.cat) {
                (Op::Push(_), "state") => "push-state",
                (Op::EvictSettled(_) | Op::EvictOlder(_) | Op::RemoveBucket(_), "state") => "removal",
                (Op::Snapshot(_), "state") => "snapshot",
                (Op::Advance(_) | Op::Stats, "state") => "unexpected-disappearance",
                (_, c) => c,
            };
            report(cat_name, dv.what, &trace);
        }
        if had_div {
            break; // the model and the pool have diverged; later steps would repeat the report
        }
        let fp = {
            use std::hash::{Hash, Hasher};
            let mut h = std::collections::hash_map::DefaultHasher::new();
            for (k, b) in &m.buckets {
                k.hash(&mut h);
                for p in &b.proofs {
                    p.item.hash(&mut h);
                }
                b.last_snapshot_ns.is_some().hash(&mut h);
            }
            m.verifies.hash(&mut h);
            h.finish()
        };
        state_fps.insert(fp);
    }
    vclock::disable();
    rep.add("distinct_pool_states(sum over histories)", state_fps.len() as u64);
    rep.nontrivial(&(cat.n, hidx, state_fps.len()));
    rep.count("histories");
    if hidx < 2 {
        rep.sample(json!({"limits": format!("{lim:?}"), "inner_num_leaves": cat.n, "history_prefix": trace.iter().take(12).collect::<Vec<_>>()}));
    }
}

pub fn run(prop: &str, ctx: &Ctx) -> i32 {
    let rule = "history = 40..200 seeded operations (push of valid / tampered / wrong-length / dummy-key / duplicate-nullifier / new-bucket catalogue proofs, evict_settled, evict_older_than, snapshot_batch, remove_bucket, clock advance incl. exact window/age boundaries, bucket_stats) \
        on a real ProofPool with small random limits under an exact virtual clock; after EVERY operation the pool's internal state (hook H5), its return value, the verification-call counter and bucket_stats are compared with a sequential reference model; \
        non-trivial = history that ran to completion or to its first divergence; distinct by (catalogue, history seed, number of distinct pool states visited)";
    let rep = Report::new(prop, "exploration", rule);
    rep.assume("catalogue proofs come from a fake private-batch-shaped circuit (free public inputs), as in the repository's own pool tests; 'verifies' ground truth is plonky2's verifier");
    rep.assume("time is the harness's interposed CLOCK_MONOTONIC: thread-local, advanced only by the history");
    if !vclock::self_test() {
        rep.inconclusive("clock_gettime interposition is not effective in this binary");
        return rep.finish(ctx, 1);
    }
    let cats: Vec<Catalogue> = vec![build_catalogue(ctx, 1, ctx.tier.pick(120, 300)), build_catalogue(ctx, 2, ctx.tier.pick(120, 300)), build_catalogue(ctx, 3, ctx.tier.pick(100, 300))];
    rep.set_extra("catalogue", json!(cats.iter().map(|c| json!({"inner_num_leaves": c.n, "items": c.items.len(),
        "valid": c.items.iter().filter(|i| i.verifies && i.kind == "valid").count(), "tampered": c.items.iter().filter(|i| i.kind == "tampered").count(),
        "dummy_key": c.items.iter().filter(|i| i.kind == "dummy-key").count(), "wrong_length": c.items.iter().filter(|i| !i.len_ok).count()})).collect::<Vec<_>>()));
    let histories = ctx.tier.pick(1500u64, 60_000);
    (0..histories).into_par_iter().for_each(|h| {
        if ctx.over_budget() {
            return;
        }
        let cat = &cats[(h % cats.len() as u64) as usize];
        run_history(prop, ctx, &rep, cat, h);
    });
    rep.finish(ctx, ctx.tier.pick(300, 5000))
}
