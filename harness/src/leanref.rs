//! C34 (second clause): the circuit's grouped exit slots, first-real reference and nullifier ordering
//! against the Lean specification's own executable definitions, evaluated by `lean` (engine E8).

use crate::cso::u;
use crate::util::{Ctx, Report, Scratch, VERIF_DIR};
use crate::wrap::*;
use crate::wrapcheck::{random_vector, vec_json, Inject};
use rand::Rng;
use rayon::prelude::*;
use serde_json::json;
use std::process::Command;
use std::sync::Mutex;

fn copy_dir(src: &std::path::Path, dst: &std::path::Path) -> std::io::Result<()> {
    std::fs::create_dir_all(dst)?;
    for e in std::fs::read_dir(src)? {
        let e = e?;
        let name = e.file_name();
        if name == ".lake" {
            continue;
        }
        let p = e.path();
        if p.is_dir() {
            copy_dir(&p, &dst.join(&name))?;
        } else {
            std::fs::copy(&p, dst.join(&name))?;
        }
    }
    Ok(())
}

pub fn run_c34(ctx: &Ctx) -> i32 {
    let rule = "case = accepted private-batch vector (N in 1..8, attainable real slots, hostile dummy slots, forced account/nullifier collisions) judged by the wrapper circuit; the same leaf vector is handed to a Lean driver that imports /repo/formal's WormholeSpec and evaluates \
        groupExits (maskedChildPairs leaves), leaves.find? isRealB and digestLt on the circuit's nullifier region; the printed values are compared with the circuit's output felts. The package is built with `lake build` first (that is what makes the definitions executable; it also type-checks every theorem).";
    let rep = Report::new("C34", "other", rule);
    rep.assume("the first sentence of C34 (theorems are proven) is a proof-checker verdict: `lake build` of the specification is run as the build step of the reference model and a failure or a `sorry` is reported, but the runtime-monitoring claim is the differential below");
    let scratch = Scratch::new("lean");
    let formal = scratch.path().join("formal");
    if let Err(e) = copy_dir(std::path::Path::new("/repo/formal"), &formal) {
        rep.inconclusive(&format!("cannot copy /repo/formal: {e}"));
        return rep.finish(ctx, 1);
    }
    if std::fs::copy(format!("{VERIF_DIR}/lean/Drv.lean"), formal.join("Drv.lean")).is_err() {
        rep.inconclusive("cannot copy the Lean driver");
        return rep.finish(ctx, 1);
    }
    let build = Command::new("lake").arg("build").current_dir(&formal).output();
    let build = match build {
        Ok(b) => b,
        Err(e) => {
            rep.inconclusive(&format!("lake is not runnable: {e}"));
            return rep.finish(ctx, 1);
        }
    };
    let build_out = format!("{}{}", String::from_utf8_lossy(&build.stdout), String::from_utf8_lossy(&build.stderr));
    if !build.status.success() {
        rep.violation("spec / lake build fails", "the Lean specification in /repo/formal does not type-check (lake build failed), so its theorems are not proven and its definitions cannot be evaluated",
            json!({"lake_build_tail": build_out.lines().rev().take(30).collect::<Vec<_>>().into_iter().rev().collect::<Vec<_>>()}));
        return rep.finish(ctx, 0);
    }
    if build_out.contains("sorry") {
        rep.violation("spec / sorry", "the Lean specification builds but a declaration uses `sorry`", json!({"lake_build": build_out.lines().filter(|l| l.contains("sorry")).take(10).collect::<Vec<_>>()}));
    }
    // also scan the sources for axioms / sorry that a quiet build would not print
    let mut src_flags = vec![];
    if let Ok(rd) = std::fs::read_dir(formal.join("WormholeSpec")) {
        for e in rd.flatten() {
            let txt = std::fs::read_to_string(e.path()).unwrap_or_default();
            for (i, l) in txt.lines().enumerate() {
                let t = l.trim_start();
                if t.starts_with("sorry") || t.contains(" sorry") && !t.starts_with("--") && !t.starts_with("/-") && !l.contains("`sorry`") {
                    src_flags.push(format!("{}:{}: {}", e.file_name().to_string_lossy(), i + 1, t.chars().take(80).collect::<String>()));
                }
            }
        }
    }
    rep.set_extra("lake_build", json!({"ok": true, "source_lines_mentioning_sorry": src_flags}));
    // cases
    let sizes = [1usize, 2, 3, 4, 8];
    let per = ctx.tier.pick(300usize, 12_000);
    let cases: Mutex<Vec<(usize, Vec<Slot>, Vec<u64>)>> = Mutex::new(vec![]);
    for &n in &sizes {
        let w = match PrivW::build(n) {
            Ok(w) => w,
            Err(e) => {
                rep.inconclusive(&format!("wrapper N={n} did not build: {e}"));
                return rep.finish(ctx, 1);
            }
        };
        (0..per).into_par_iter().for_each(|i| {
            let mut rng = ctx.sub_rng(&format!("lean{n}"), i as u64);
            let (mut s, p) = random_vector(&mut rng, n, if i % 5 == 0 { Inject::DummyCarriesRealNull } else { Inject::None });
            // Lean's Felt is Nat: keep every value the spec sums within the attainable range, dummy garbage below p
            for x in s.iter_mut() {
                if x.is_real() && !attainable(x) {
                    return;
                }
            }
            if rng.gen_bool(0.2) && n >= 2 {
                s[1].exit1 = s[0].exit1;
            }
            let children: Vec<Vec<_>> = s.iter().map(|x| x.to_pis()).collect();
            let (acc, out, _) = w.judge(&children, &p, &[]);
            rep.eval();
            if !acc {
                return;
            }
            cases.lock().unwrap().push((n, s, out.iter().map(|x| u(*x)).collect()));
        });
    }
    let cases = cases.into_inner().unwrap();
    if cases.is_empty() {
        rep.inconclusive("no accepted case was produced");
        return rep.finish(ctx, 1);
    }
    // write the case file
    let mut txt = String::new();
    for (n, s, out) in &cases {
        txt.push_str(&format!("{n}"));
        for x in s {
            for v in x.to_pis() {
                txt.push_str(&format!(" {}", u(v)));
            }
        }
        txt.push_str(&format!(" {n}"));
        for v in &out[8 + 10 * n..8 + 14 * n] {
            txt.push_str(&format!(" {v}"));
        }
        txt.push('\n');
    }
    let case_file = formal.join("cases.txt");
    std::fs::write(&case_file, txt).unwrap();
    let run = Command::new("lake").args(["env", "lean", "--run", "Drv.lean", "cases.txt"]).current_dir(&formal).output();
    let run = match run {
        Ok(r) if r.status.success() => r,
        Ok(r) => {
            rep.inconclusive(&format!("the Lean driver failed: {}", String::from_utf8_lossy(&r.stderr).chars().take(400).collect::<String>()));
            return rep.finish(ctx, 1);
        }
        Err(e) => {
            rep.inconclusive(&format!("cannot run the Lean driver: {e}"));
            return rep.finish(ctx, 1);
        }
    };
    let outtxt = String::from_utf8_lossy(&run.stdout).to_string();
    let lines: Vec<&str> = outtxt.lines().collect();
    if lines.len() != 3 * cases.len() {
        rep.inconclusive(&format!("the Lean driver printed {} lines for {} cases", lines.len(), cases.len()));
        return rep.finish(ctx, 1);
    }
    for (ci, (n, s, out)) in cases.iter().enumerate() {
        let n = *n;
        let (g, r, sline) = (lines[3 * ci], lines[3 * ci + 1], lines[3 * ci + 2]);
        rep.nontrivial(&(n, out));
        let case = || json!({"n": n, "children": vec_json(s), "circuit_output": out, "lean": [g, r, sline]});
        // G: grouped exit slots
        let spec_slots: Vec<Vec<u64>> = g.trim_start_matches("G ").split(';').map(|x| x.split_whitespace().filter_map(|t| t.parse().ok()).collect()).collect();
        let circ_slots: Vec<Vec<u64>> = (0..2 * n).map(|k| out[8 + 5 * k..13 + 5 * k].to_vec()).collect();
        if spec_slots != circ_slots {
            rep.violation("spec-vs-circuit / grouped exit slots", "the circuit's exit slots differ from groupExits (maskedChildPairs leaves) evaluated by Lean", case());
        }
        // R: first real reference
        let want_ref: Vec<u64> = if r.trim() == "R none" { vec![0; 6] } else { r.trim_start_matches("R ").split_whitespace().filter_map(|t| t.parse().ok()).collect() };
        let circ_ref: Vec<u64> = out[2..8].to_vec();
        if want_ref != circ_ref {
            rep.violation("spec-vs-circuit / first-real reference", "the circuit's (fee, block hash, block number) header differs from leaves.find? isRealB evaluated by Lean", case());
        }
        // S: ordering of the circuit's nullifier region under the spec's digestLt
        if sline.split_whitespace().skip(1).any(|t| t != "1") {
            rep.violation("spec-vs-circuit / nullifier order", "the circuit's nullifier region is not ascending under the specification's digestLt", case());
        }
        if ci < 3 {
            rep.sample(case());
        }
    }
    rep.add("cases_evaluated_by_lean", cases.len() as u64);
    rep.finish(ctx, ctx.tier.pick(50, 2000))
}
