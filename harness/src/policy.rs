//! C28 (circuit-config policy) and C29 (per-layer proof counts at every entry point).

use crate::heapmon;
use crate::util::{Ctx, Report, Scratch};
use crate::wrap::FakeLeaf;
use plonky2::plonk::circuit_data::CircuitConfig;
use rand::Rng;
use serde_json::json;
use std::panic::{catch_unwind, AssertUnwindSafe};
use zk_circuits_common::circuit::validate_circuit_config;

#[allow(dead_code)]
#[path = "/repo/wormhole/memprof/src/config.rs"]
mod memprof_config;

fn guarded<T>(fun: impl FnOnce() -> T) -> Result<T, String> {
    catch_unwind(AssertUnwindSafe(fun)).map_err(|e| {
        if let Some(s) = e.downcast_ref::<&str>() {
            s.to_string()
        } else if let Some(s) = e.downcast_ref::<String>() {
            s.clone()
        } else {
            "panic".to_string()
        }
    })
}

#[derive(Clone, Copy, Debug, Hash, PartialEq, Eq)]
struct Knobs {
    challenges: usize,
    security: usize,
    queries: usize,
    wires: usize,
    routed: usize,
    quotient: usize,
    rate: usize,
    cap: usize,
}

fn model_ok(k: &Knobs) -> bool {
    let ceil_log2 = |n: usize| -> u32 {
        if n <= 1 {
            0
        } else {
            usize::BITS - (n - 1).leading_zeros()
        }
    };
    k.challenges > 0
        && k.security > 0
        && k.queries > 0
        && k.wires >= 135
        && k.routed >= 37
        && k.routed <= k.wires
        && k.quotient >= 7
        && k.rate <= 8
        && k.cap <= 8
        && (k.rate as u32) >= ceil_log2(k.quotient)
}

fn to_config(k: &Knobs, zk: bool) -> CircuitConfig {
    let mut c = CircuitConfig::standard_recursion_config();
    c.zero_knowledge = zk;
    c.num_challenges = k.challenges;
    c.security_bits = k.security;
    c.fri_config.num_query_rounds = k.queries;
    c.num_wires = k.wires;
    c.num_routed_wires = k.routed;
    c.max_quotient_degree_factor = k.quotient;
    c.fri_config.rate_bits = k.rate;
    c.fri_config.cap_height = k.cap;
    c
}

const BASE: Knobs = Knobs { challenges: 2, security: 100, queries: 28, wires: 135, routed: 80, quotient: 8, rate: 3, cap: 4 };

fn knob_values(i: usize) -> Vec<usize> {
    let big = [1usize << 20, usize::MAX / 2, usize::MAX];
    let mut v = match i {
        0 | 1 | 2 => vec![0, 1, 2, 28, 100],
        3 => vec![0, 1, 134, 135, 136, 200],
        4 => vec![0, 1, 36, 37, 38, 80, 134, 135, 136, 137],
        5 => vec![0, 1, 6, 7, 8, 9, 15, 16, 17, 255, 256, 257],
        6 => vec![0, 1, 2, 3, 4, 5, 7, 8, 9, 20, 63, 64],
        _ => vec![0, 1, 4, 7, 8, 9, 20, 63, 64],
    };
    v.extend_from_slice(&big);
    v
}

fn set_knob(k: &mut Knobs, i: usize, v: usize) {
    match i {
        0 => k.challenges = v,
        1 => k.security = v,
        2 => k.queries = v,
        3 => k.wires = v,
        4 => k.routed = v,
        5 => k.quotient = v,
        6 => k.rate = v,
        _ => k.cap = v,
    }
}

pub fn run_c28(ctx: &Ctx) -> i32 {
    use wormhole_aggregator::private_batch::circuit::circuit_logic::PrivateBatchCircuit;
    use wormhole_aggregator::private_batch::prover::PrivateBatchProver;
    use wormhole_aggregator::public_batch::circuit::circuit_logic::PublicBatchCircuit;
    use wormhole_aggregator::public_batch::prover::PublicBatchProver;
    use wormhole_circuit::circuit::circuit_logic::WormholeCircuit;
    let rule = "configuration = value assignment to the 8 policy knobs (+zk flag) over a grid of every threshold and its neighbours, 0, 1, huge and usize::MAX; \
        validate_circuit_config is compared with an independent policy model; every failing config is fed to all six constructors under catch_unwind with an allocation counter; \
        CLI flag sets over the same grid: validate()=Ok => validate_circuit_config(build())=Ok; non-trivial = every judged configuration; distinct by knob tuple";
    let rep = Report::new("C28", "exploration", rule);
    rep.assume("constructors are only driven with FAILING configs (a passing config is allowed to build arbitrarily large circuits)");
    let fake = FakeLeaf::build(21);
    let fake_inner = FakeLeaf::build(21 + 8);
    let dummy_leaf_proof = fake.prove(&vec![plonky2::field::types::Field::ZERO; 21]).unwrap();
    let dummy_inner_proof = {
        let mut v = vec![<zk_circuits_common::circuit::F as plonky2::field::types::Field>::ZERO; 29];
        v[0] = crate::cso::f(2);
        fake_inner.prove(&v).unwrap()
    };
    let judge = |k: Knobs, zk: bool, drive_ctors: bool| {
        rep.eval();
        rep.nontrivial(&(k, zk));
        let cfg = to_config(&k, zk);
        let want = model_ok(&k);
        match guarded(|| validate_circuit_config(&cfg)) {
            Err(p) => rep.violation("config-policy / validate panics", &format!("validate_circuit_config panicked: {p}"), json!({"knobs": format!("{k:?}")})),
            Ok(r) => {
                if r.is_ok() != want {
                    rep.violation(&format!("config-policy / acceptance got={} want={}", r.is_ok(), want),
                        &format!("validate_circuit_config {} a config the policy {}", if r.is_ok() {"accepts"} else {"rejects"}, if want {"admits"} else {"forbids"}),
                        json!({"knobs": format!("{k:?}")}));
                }
            }
        }
        if !want && drive_ctors {
            rep.count("failing_configs_fed_to_constructors");
            let ctors: Vec<(&str, Box<dyn Fn() -> bool>)> = vec![
                ("WormholeCircuit::new", Box::new(|| WormholeCircuit::new(cfg.clone()).is_ok())),
                ("WormholeProver::new", Box::new(|| wormhole_prover::WormholeProver::new(cfg.clone()).is_ok())),
                ("PrivateBatchCircuit::new", Box::new(|| PrivateBatchCircuit::new(cfg.clone(), &fake.data.common, &fake.data.verifier_only, 2).is_ok())),
                ("PublicBatchCircuit::new", Box::new(|| PublicBatchCircuit::new(cfg.clone(), fake_inner.data.common.clone(), &fake_inner.data.verifier_only, 2, 1).is_ok())),
                ("PrivateBatchProver::new", Box::new(|| PrivateBatchProver::new(cfg.clone(), fake.data.common.clone(), &fake.data.verifier_only, 2, dummy_leaf_proof.clone()).is_ok())),
                ("PublicBatchProver::new", Box::new(|| PublicBatchProver::new(cfg.clone(), fake_inner.data.common.clone(), &fake_inner.data.verifier_only, 2, 1, dummy_inner_proof.clone()).is_ok())),
            ];
            for (name, c) in ctors {
                let before = heapmon::thread_allocated();
                let r = guarded(|| c());
                let used = heapmon::thread_allocated() - before;
                rep.eval();
                match r {
                    Err(p) => rep.violation(&format!("config-policy / {name} panics"), &format!("{name} panicked on a policy-failing config: {p}"), json!({"knobs": format!("{k:?}")})),
                    Ok(true) => rep.violation(&format!("config-policy / {name} accepts"), &format!("{name} accepted a policy-failing config"), json!({"knobs": format!("{k:?}")})),
                    Ok(false) => {
                        // the proof template clones are the only legitimate allocations before the check
                        if used > (1 << 20) {
                            rep.violation(&format!("config-policy / {name} allocates before rejecting"), &format!("{name} allocated {used} bytes before rejecting a failing config"), json!({"knobs": format!("{k:?}")}));
                        }
                    }
                }
            }
        }
    };
    // single knob sweeps (with constructors)
    for i in 0..8 {
        for v in knob_values(i) {
            let mut k = BASE;
            set_knob(&mut k, i, v);
            judge(k, i % 2 == 0, true);
        }
    }
    // full pairwise product
    let mut pair_count = 0u64;
    for i in 0..8 {
        for j in (i + 1)..8 {
            for vi in knob_values(i) {
                for vj in knob_values(j) {
                    let mut k = BASE;
                    set_knob(&mut k, i, vi);
                    set_knob(&mut k, j, vj);
                    pair_count += 1;
                    judge(k, false, pair_count % ctx.tier.pick(97, 11) == 0);
                }
            }
        }
    }
    rep.set_extra("pairwise_grid_configs", json!(pair_count));
    // random beyond pairs
    let mut rng = ctx.rng("rand");
    for it in 0..ctx.tier.pick(20_000usize, 8_000_000) {
        let mut k = BASE;
        for i in 0..8 {
            if rng.gen_bool(0.5) {
                let vals = knob_values(i);
                set_knob(&mut k, i, vals[rng.gen_range(0..vals.len())]);
            }
        }
        judge(k, rng.gen_bool(0.5), it % ctx.tier.pick(499, 199) == 0);
    }
    // CLI flag grid
    {
        use memprof_config::{AggConfigArgs, ZkMode};
        let opt = |rng: &mut rand_chacha::ChaCha8Rng, i: usize| -> Option<usize> {
            if rng.gen_bool(0.55) {
                None
            } else {
                let vals = knob_values(i);
                Some(vals[rng.gen_range(0..vals.len())])
            }
        };
        let mut cli_ok = 0u64;
        let judge_cli = |a: AggConfigArgs, cli_ok: &mut u64| {
            rep.eval();
            rep.nontrivial(&format!("{a:?}"));
            match guarded(|| a.validate()) {
                Err(p) => rep.violation("config-policy / CLI validate panics", &format!("AggConfigArgs::validate panicked: {p}"), json!({"args": format!("{a:?}")})),
                Ok(Ok(())) => {
                    *cli_ok += 1;
                    match guarded(|| validate_circuit_config(&a.build())) {
                        Ok(Ok(())) => {}
                        Ok(Err(e)) => rep.violation("config-policy / CLI accepts a flag set whose config fails the policy",
                            &format!("memprof flags pass validate() but the resulting config fails validate_circuit_config: {e}"), json!({"args": format!("{a:?}")})),
                        Err(p) => rep.violation("config-policy / CLI build panics", &format!("build()/validate panicked: {p}"), json!({"args": format!("{a:?}")})),
                    }
                }
                Ok(Err(_)) => {}
            }
        };
        // single flags and pairs, exhaustively
        let mk = || AggConfigArgs { zk_mode: None, rate_bits: None, cap_height: None, num_wires: None, num_routed_wires: None, max_quotient_degree_factor: None,
            num_query_rounds: None, security_bits: None, num_challenges: None, allow_weakening_security: true };
        let setf = |a: &mut AggConfigArgs, i: usize, v: usize| match i {
            0 => a.num_challenges = Some(v),
            1 => a.security_bits = Some(v),
            2 => a.num_query_rounds = Some(v),
            3 => a.num_wires = Some(v),
            4 => a.num_routed_wires = Some(v),
            5 => a.max_quotient_degree_factor = Some(v),
            6 => a.rate_bits = Some(v),
            _ => a.cap_height = Some(v),
        };
        for i in 0..8 {
            for vi in knob_values(i) {
                let mut a = mk();
                setf(&mut a, i, vi);
                judge_cli(a, &mut cli_ok);
                for j in (i + 1)..8 {
                    for vj in knob_values(j) {
                        let mut a = mk();
                        setf(&mut a, i, vi);
                        setf(&mut a, j, vj);
                        judge_cli(a, &mut cli_ok);
                    }
                }
            }
        }
        for _ in 0..ctx.tier.pick(20_000usize, 5_000_000) {
            let a = AggConfigArgs {
                zk_mode: match rng.gen_range(0..3) { 0 => None, 1 => Some(ZkMode::Rowblinding), _ => Some(ZkMode::Disabled) },
                num_challenges: opt(&mut rng, 0), security_bits: opt(&mut rng, 1), num_query_rounds: opt(&mut rng, 2), num_wires: opt(&mut rng, 3),
                num_routed_wires: opt(&mut rng, 4), max_quotient_degree_factor: opt(&mut rng, 5), rate_bits: opt(&mut rng, 6), cap_height: opt(&mut rng, 7),
                allow_weakening_security: rng.gen_bool(0.7),
            };
            judge_cli(a, &mut cli_ok);
        }
        rep.add("cli_flag_sets_accepted", cli_ok);
        if cli_ok == 0 {
            rep.inconclusive("no CLI flag set was accepted: the CLI oracle observed nothing");
        }
    }
    rep.sample(json!({"knobs": format!("{BASE:?}"), "policy": model_ok(&BASE)}));
    rep.sample(json!({"knobs": "routed=136 > wires=135", "policy": false}));
    rep.finish(ctx, ctx.tier.pick(1000, 10000))
}

// ---------------------------------------------------------------------------
// C29
// ---------------------------------------------------------------------------

pub fn run_c29(ctx: &Ctx) -> i32 {
    use qp_wormhole_inputs::public_batch_pi::try_pi_len;
    use qp_wormhole_inputs::{validate_proof_count, PublicBatchPublicInputs};
    use wormhole_aggregator::aggregator::PublicBatchAggregator;
    use wormhole_aggregator::common::recursive::add_recursive_verifiers;
    use wormhole_aggregator::pool::{PoolLimits, ProofPool};
    use wormhole_aggregator::private_batch::circuit::build::generate_private_batch_circuit_binaries;
    use wormhole_aggregator::private_batch::circuit::circuit_logic::PrivateBatchCircuit;
    use wormhole_aggregator::private_batch::prover::PrivateBatchProver;
    use wormhole_aggregator::public_batch::circuit::circuit_logic::PublicBatchCircuit;
    use wormhole_aggregator::public_batch::circuit::generate_public_batch_circuit_binaries;
    use wormhole_aggregator::public_batch::prover::PublicBatchProver;
    use wormhole_aggregator::CircuitBinsConfig;
    use zk_circuits_common::circuit::{wormhole_private_batch_circuit_config, wormhole_public_batch_circuit_config, C, D, F};
    let rule = "input = (entry point, per-layer proof count) over counts {0,1,2,63,64,65,66,1024,2^32,2^63,usize::MAX}; each entry point runs under catch_unwind with an allocation counter in a scratch directory; \
        oracle: bad count => Err, no panic (harness is built with overflow-checks=true, so wrapping layout arithmetic panics and is seen), < 1 MiB allocated, no file created; config.json round trip for valid pairs; \
        non-trivial = every (entry point, count) pair; distinct by that pair";
    let rep = Report::new("C29", "exploration", rule);
    let bad: Vec<usize> = vec![0, 65, 66, 1024, 1 << 32, 1 << 63, usize::MAX];
    let good: Vec<usize> = vec![1, 2, 63, 64];
    let fake = FakeLeaf::build(21);
    let fake_inner = FakeLeaf::build(29);
    let zero21 = vec![<F as plonky2::field::types::Field>::ZERO; 21];
    let leaf_tpl = fake.prove(&zero21).unwrap();
    let mut v29 = vec![<F as plonky2::field::types::Field>::ZERO; 29];
    v29[0] = crate::cso::f(2);
    let inner_tpl = fake_inner.prove(&v29).unwrap();
    let scratch = Scratch::new("c29");
    let dir_entries = |p: &std::path::Path| -> Vec<String> {
        let mut v = vec![];
        if let Ok(rd) = std::fs::read_dir(p) {
            for e in rd.flatten() {
                v.push(e.file_name().to_string_lossy().to_string());
            }
        }
        v.sort();
        v
    };
    // expect_err entry: closure returns Ok(true)=accepted / Ok(false)=rejected
    let check_bad = |name: &str, count_desc: String, alloc_cap: u64, fun: &dyn Fn() -> bool| {
        rep.eval();
        rep.nontrivial(&(name.to_string(), count_desc.clone()));
        rep.count(&format!("entry:{name}"));
        let before_files = dir_entries(scratch.path());
        let before = heapmon::thread_allocated();
        let r = guarded(|| fun());
        let used = heapmon::thread_allocated() - before;
        let after_files = dir_entries(scratch.path());
        match r {
            Err(p) => rep.violation(&format!("proof-count / {name} panics"), &format!("{name} panicked on count {count_desc}: {p}"), json!({"entry": name, "count": count_desc})),
            Ok(true) => rep.violation(&format!("proof-count / {name} accepts"), &format!("{name} accepted out-of-range count {count_desc}"), json!({"entry": name, "count": count_desc})),
            Ok(false) => {
                if used > alloc_cap {
                    rep.violation(&format!("proof-count / {name} allocates before rejecting"), &format!("{name} allocated {used} bytes before rejecting count {count_desc}"), json!({"entry": name, "count": count_desc}));
                }
                if before_files != after_files {
                    rep.violation(&format!("proof-count / {name} touches the filesystem before rejecting"), &format!("{name} created {:?} while rejecting count {count_desc}", after_files), json!({"entry": name, "count": count_desc}));
                }
            }
        }
    };
    let mib = 1u64 << 20;
    // entry points that DERIVE the per-layer count from a length: the private-batch public-input parsers (u64 and
    // field-element based) and the padded-length helper; counts 0 (header only), 65 and 1000, headers otherwise well formed
    {
        use qp_wormhole_inputs::PrivateBatchPublicInputs;
        use wormhole_aggregator::common::utils::private_batch_num_leaves_from_padded_pi_len;
        use wormhole_circuit::inputs::ParsePrivateBatchPublicInputs;
        for c in [0usize, 65, 66, 1000] {
            let len = 8 + 21 * c;
            for header in [2 * c as u64, 0u64, 2] {
                let mut v = vec![0u64; len];
                v[0] = header;
                let d = format!("{c} (derived from length {len}, header constant {header})");
                check_bad("PrivateBatchPublicInputs::try_from_u64_slice(derived)", d.clone(), 64 * 1024, &|| PrivateBatchPublicInputs::try_from_u64_slice(&v).is_ok());
                let felts: Vec<F> = v.iter().map(|x| crate::cso::f(*x)).collect();
                check_bad("ParsePrivateBatchPublicInputs::try_from_felts(derived)", d.clone(), 64 * 1024, &|| <PrivateBatchPublicInputs as ParsePrivateBatchPublicInputs>::try_from_felts(&felts).is_ok());
            }
            check_bad("private_batch_num_leaves_from_padded_pi_len", format!("{c} (length {len})"), 4096, &|| private_batch_num_leaves_from_padded_pi_len(len).is_ok());
        }
    }
    for &c in &bad {
        let d = format!("{c}");
        check_bad("validate_proof_count", d.clone(), 4096, &|| validate_proof_count(c, "x").is_ok());
        check_bad("CircuitBinsConfig::new(leaf)", d.clone(), 4096, &|| CircuitBinsConfig::new(c, Some(1)).is_ok());
        check_bad("CircuitBinsConfig::new(inner)", d.clone(), 4096, &|| CircuitBinsConfig::new(1, Some(c)).is_ok());
        check_bad("CircuitBinsConfig::validate", d.clone(), 4096, &|| CircuitBinsConfig { num_leaf_proofs: c, num_private_batch_proofs: None }.validate().is_ok());
        check_bad("PublicBatchPublicInputs::try_from_u64_slice(m)", d.clone(), 4096, &|| PublicBatchPublicInputs::try_from_u64_slice(&[0u64; 26], c, 1).is_ok());
        check_bad("PublicBatchPublicInputs::try_from_u64_slice(n)", d.clone(), 4096, &|| PublicBatchPublicInputs::try_from_u64_slice(&[0u64; 26], 1, c).is_ok());
        check_bad("PrivateBatchCircuit::new", d.clone(), mib, &|| PrivateBatchCircuit::new(wormhole_private_batch_circuit_config(), &fake.data.common, &fake.data.verifier_only, c).is_ok());
        check_bad("PublicBatchCircuit::new(m)", d.clone(), mib, &|| PublicBatchCircuit::new(wormhole_public_batch_circuit_config(), fake_inner.data.common.clone(), &fake_inner.data.verifier_only, c, 1).is_ok());
        check_bad("PublicBatchCircuit::new(n)", d.clone(), mib, &|| PublicBatchCircuit::new(wormhole_public_batch_circuit_config(), fake_inner.data.common.clone(), &fake_inner.data.verifier_only, 1, c).is_ok());
        check_bad("PrivateBatchProver::new", d.clone(), mib, &|| PrivateBatchProver::new(wormhole_private_batch_circuit_config(), fake.data.common.clone(), &fake.data.verifier_only, c, leaf_tpl.clone()).is_ok());
        check_bad("PrivateBatchProver::new_from_bytes", d.clone(), mib, &|| PrivateBatchProver::new_from_bytes(&[1, 2, 3], &[4, 5, 6], &[7, 8, 9], c).is_ok());
        check_bad("PublicBatchProver::new(m)", d.clone(), mib, &|| PublicBatchProver::new(wormhole_public_batch_circuit_config(), fake_inner.data.common.clone(), &fake_inner.data.verifier_only, c, 1, inner_tpl.clone()).is_ok());
        check_bad("PublicBatchProver::new(n)", d.clone(), mib, &|| PublicBatchProver::new(wormhole_public_batch_circuit_config(), fake_inner.data.common.clone(), &fake_inner.data.verifier_only, 1, c, inner_tpl.clone()).is_ok());
        check_bad("PublicBatchProver::new_from_bytes(m)", d.clone(), mib, &|| PublicBatchProver::new_from_bytes(&[1], &[2], &[3], (1, c)).is_ok());
        check_bad("PublicBatchProver::new_from_bytes(n)", d.clone(), mib, &|| PublicBatchProver::new_from_bytes(&[1], &[2], &[3], (c, 1)).is_ok());
        check_bad("add_recursive_verifiers", d.clone(), mib, &|| {
            let mut b = plonky2::plonk::circuit_builder::CircuitBuilder::<F, D>::new(wormhole_public_batch_circuit_config());
            add_recursive_verifiers::<F, C, D>(&mut b, &fake.data.common, &fake.data.verifier_only, c).is_ok()
        });
        check_bad("ProofPool::new(inner_num_leaves)", d.clone(), mib, &|| ProofPool::new(fake_inner.data.verifier_data(), c, 1, PoolLimits::default()).is_ok());
        check_bad("ProofPool::new(batch_size)", d.clone(), mib, &|| ProofPool::new(fake_inner.data.verifier_data(), 1, c, PoolLimits { max_proofs: usize::MAX, ..PoolLimits::default() }).is_ok());
        let out = scratch.path().join("bins-out");
        check_bad("generate_private_batch_circuit_binaries", d.clone(), mib, &|| generate_private_batch_circuit_binaries(&out, c, false).is_ok());
        check_bad("generate_public_batch_circuit_binaries(m)", d.clone(), mib, &|| generate_public_batch_circuit_binaries(&out, c, 1).is_ok());
        check_bad("generate_public_batch_circuit_binaries(n)", d.clone(), mib, &|| generate_public_batch_circuit_binaries(&out, 1, c).is_ok());
        check_bad("generate_all_circuit_binaries(n)", d.clone(), mib, &|| wormhole_circuit_builder::generate_all_circuit_binaries(&out, false, c, None).is_ok());
        check_bad("generate_all_circuit_binaries(m)", d.clone(), mib, &|| wormhole_circuit_builder::generate_all_circuit_binaries(&out, false, 1, Some(c)).is_ok());
    }
    // config files with bad counts through every loader that reads config.json
    let cfg_dir = scratch.path().join("cfg");
    std::fs::create_dir_all(&cfg_dir).unwrap();
    let write_cfg = |body: &str| std::fs::write(cfg_dir.join("config.json"), body).unwrap();
    for &c in &bad {
        for (label, body) in [
            ("leaf", format!("{{\"num_leaf_proofs\":{c},\"num_private_batch_proofs\":2}}")),
            ("inner", format!("{{\"num_leaf_proofs\":2,\"num_private_batch_proofs\":{c}}}")),
            ("inner-legacy", format!("{{\"num_leaf_proofs\":2,\"num_layer0_proofs\":{c}}}")),
        ] {
            write_cfg(&body);
            rep.eval();
            rep.nontrivial(&("config-file", label, c));
            for (name, fun) in [
                ("CircuitBinsConfig::load", Box::new(|| CircuitBinsConfig::load(&cfg_dir).is_ok()) as Box<dyn Fn() -> bool>),
                ("PrivateBatchProver::new_from_binaries_dir", Box::new(|| label == "leaf" && PrivateBatchProver::new_from_binaries_dir(&cfg_dir).is_ok())),
                ("PublicBatchProver::new_from_binaries_dir", Box::new(|| PublicBatchProver::new_from_binaries_dir(&cfg_dir).is_ok())),
                ("PublicBatchAggregator::with_limits", Box::new(|| PublicBatchAggregator::with_limits(&cfg_dir, qp_wormhole_inputs::BytesDigest::default(), PoolLimits::default()).is_ok())),
            ] {
                let before = heapmon::thread_allocated();
                let r = guarded(|| fun());
                let used = heapmon::thread_allocated() - before;
                rep.count(&format!("entry:{name}"));
                match r {
                    Err(p) => rep.violation(&format!("proof-count / {name} panics"), &format!("{name} panicked on config.json {body}: {p}"), json!({"config": body})),
                    Ok(true) => rep.violation(&format!("proof-count / {name} accepts"), &format!("{name} accepted config.json {body}"), json!({"config": body})),
                    Ok(false) => {
                        if used > mib {
                            rep.violation(&format!("proof-count / {name} allocates before rejecting"), &format!("{name} allocated {used} bytes on config.json {body}"), json!({"config": body}));
                        }
                    }
                }
            }
        }
    }
    // good counts at the cheap entry points
    for &c in &good {
        rep.eval();
        rep.nontrivial(&("good", c));
        let ok = validate_proof_count(c, "x").is_ok() && CircuitBinsConfig::new(c, Some(c)).is_ok() && CircuitBinsConfig::new(c, None).is_ok();
        if !ok {
            rep.violation("proof-count / valid count rejected", &format!("count {c} in 1..=64 was rejected"), json!({"count": c}));
        }
    }
    // try_pi_len never wraps
    let grid: Vec<usize> = vec![0, 1, 2, 64, 65, 1 << 16, 1 << 31, 1 << 32, 1 << 40, 1 << 62, 1 << 63, usize::MAX / 14, usize::MAX / 14 + 1, usize::MAX];
    for &m in &grid {
        for &n in &grid {
            rep.eval();
            rep.nontrivial(&("try_pi_len", m, n));
            let mn = (m as u128).checked_mul(n as u128);
            let want: u128 = mn.and_then(|x| x.checked_mul(14)).and_then(|x| x.checked_add(12)).unwrap_or(u128::MAX);
            // intermediate products of the documented formula must fit as well
            let fits = (n as u128 * 2) <= usize::MAX as u128
                && mn.and_then(|x| x.checked_mul(10)).map(|x| x <= usize::MAX as u128).unwrap_or(false)
                && want <= usize::MAX as u128;
            match guarded(|| try_pi_len(m, n)) {
                Err(p) => rep.violation("proof-count / try_pi_len panics (arithmetic wrapped)", &format!("try_pi_len({m},{n}) panicked: {p}"), json!({"m": m, "n": n})),
                Ok(Some(v)) => {
                    if v as u128 != want {
                        rep.violation("proof-count / try_pi_len wrong value", &format!("try_pi_len({m},{n}) = {v}, expected {want}"), json!({"m": m, "n": n}));
                    }
                }
                Ok(None) => {
                    if fits {
                        rep.violation("proof-count / try_pi_len refuses a representable length", &format!("try_pi_len({m},{n}) = None but the length {want} fits"), json!({"m": m, "n": n}));
                    }
                }
            }
        }
    }
    // config.json round trip
    let mut rng = ctx.rng("rt");
    let mut pairs: Vec<(usize, Option<usize>)> = vec![];
    for n in 1..=64usize {
        for m in 0..=64usize {
            pairs.push((n, if m == 0 { None } else { Some(m) }));
        }
    }
    let all = pairs.len();
    if ctx.tier == crate::util::Tier::Quick {
        let keep = 260;
        let mut sel = vec![(1, None), (64, Some(64)), (1, Some(1)), (64, None)];
        while sel.len() < keep {
            sel.push(pairs[rng.gen_range(0..pairs.len())]);
        }
        pairs = sel;
    }
    let rt_dir = scratch.path().join("rt");
    for (i, (n, m)) in pairs.iter().enumerate() {
        if ctx.over_budget() {
            break;
        }
        rep.eval();
        rep.nontrivial(&("roundtrip", n, m));
        let r = guarded(|| -> anyhow::Result<(usize, Option<usize>)> {
            let c = CircuitBinsConfig::new(*n, *m)?;
            c.save(&rt_dir)?;
            let l = CircuitBinsConfig::load(&rt_dir)?;
            Ok((l.num_leaf_proofs, l.num_private_batch_proofs))
        });
        match r {
            Ok(Ok(got)) if got == (*n, *m) => {}
            other => rep.violation("proof-count / config round trip", &format!("config.json round trip of ({n},{m:?}) gave {other:?}"), json!({"n": n, "m": m})),
        }
        if i % 7 == 0 {
            if let Some(mm) = m {
                // legacy key
                std::fs::write(rt_dir.join("config.json"), format!("{{\"num_leaf_proofs\":{n},\"num_layer0_proofs\":{mm}}}")).unwrap();
                match guarded(|| CircuitBinsConfig::load(&rt_dir)) {
                    Ok(Ok(l)) if l.num_leaf_proofs == *n && l.num_private_batch_proofs == Some(*mm) => rep.count("legacy_key_loaded"),
                    other => rep.violation("proof-count / legacy key", &format!("legacy key num_layer0_proofs not honoured for ({n},{mm}): {:?}", other.map(|r| r.map(|c| (c.num_leaf_proofs, c.num_private_batch_proofs)).map_err(|e| e.to_string()))), json!({"n": n, "m": mm})),
                }
            }
        }
    }
    rep.set_extra("config_round_trips", json!({"explored": pairs.len(), "all_valid_pairs": all, "complete": pairs.len() == all}));
    rep.sample(json!({"entry": "PrivateBatchCircuit::new", "count": 65, "expected": "Err"}));
    rep.sample(json!({"entry": "config.json", "body": "{\"num_leaf_proofs\":2,\"num_layer0_proofs\":0}", "expected": "Err"}));
    rep.finish(ctx, ctx.tier.pick(300, 1000))
}
