//! C06–C09 (private wrapper), C12–C13 (public wrapper), C36 (two layers).

use crate::cso::{f, u};
use crate::leaf::{rand_canon, rand_d4, D4, P};
use crate::util::{Ctx, Report};
use crate::wrap::*;
use plonky2::field::types::Field;
use rand::seq::SliceRandom;
use rand::Rng;
use rayon::prelude::*;
use serde_json::{json, Value};
use std::collections::BTreeMap;
use zk_circuits_common::circuit::F;

const M32: u64 = (1 << 32) - 1;

fn acct(k: u64) -> D4 {
    if k == 0 {
        [F::ZERO; 4]
    } else {
        [f(0x1111 * k), f(k), f(P - k), f(7 + k)]
    }
}
fn blk(k: u64) -> D4 {
    if k == 0 {
        [F::ZERO; 4]
    } else if k == 3 {
        [f(1), f(P - 1), f(0), f(0)] // non-zero hash whose limbs sum to zero
    } else {
        [f(k), f(0), f(P - 1), f(k << 33)]
    }
}
fn nul(k: u64) -> D4 {
    [f(k.wrapping_mul(0x9E37_79B9_7F4A_7C15) % P), f(k), f(M32 + k), f(P - 1 - k)]
}

/// digests that alias under lossy folds of the four limbs (plain / weighted / alternating sums, products,
/// limb permutations): a comparison that is not limb-wise treats them as zero or as equal
pub fn zero_alias_digest(rng: &mut impl Rng) -> D4 {
    let neg = |x: u64| -> u64 { (P - (x % P)) % P };
    match rng.gen_range(0..8) {
        0 => [f(1), f(P - 1), f(0), f(0)],
        1 => [f(0), f(0), f(P - 90), f(90)],
        2 => {
            let (a, b, c) = (rng.gen_range(1..P), rng.gen_range(1..P), rng.gen_range(1..P));
            let s = ((a as u128 + b as u128 + c as u128) % P as u128) as u64;
            [f(a), f(b), f(c), f(neg(s))]
        }
        3 => {
            // alternating sum zero: a - b + c - d = 0
            let (a, b, c) = (rng.gen_range(1..1 << 62), rng.gen_range(1..1 << 62), rng.gen_range(1..1 << 62));
            let d = ((a as u128 + P as u128 - b as u128 + c as u128) % P as u128) as u64;
            [f(a), f(b), f(c), f(d)]
        }
        4 => {
            // sum with weights 1,2,3,4 zero: d = -(a+2b+3c)/4
            let (a, b, c) = (rng.gen_range(1..1 << 60), rng.gen_range(1..1 << 60), rng.gen_range(1..1 << 60));
            let t = (a as u128 + 2 * b as u128 + 3 * c as u128) % P as u128;
            let inv4 = F::from_canonical_u64(4).inverse();
            let d = (F::ZERO - F::from_canonical_u64(t as u64)) * inv4;
            [f(a), f(b), f(c), d]
        }
        5 => {
            // base-2^32 packing zero: a + 2^32 b + 2^64 c + 2^96 d = 0 (mod p)
            let (b, c, d) = (rng.gen_range(1..1 << 32), rng.gen_range(1..1 << 32), rng.gen_range(1..1 << 32));
            let w = F::from_canonical_u64(1 << 32);
            let a = F::ZERO - (w * f(b) + w * w * f(c) + w * w * w * f(d));
            [a, f(b), f(c), f(d)]
        }
        6 => {
            // one limb zero (product of limbs is zero), others random
            let mut d = rand_d4(rng);
            d[rng.gen_range(0..4)] = F::ZERO;
            d
        }
        _ => {
            let k = rng.gen_range(0..4);
            let mut d = [F::ZERO; 4];
            d[k] = f(*[1u64, 1 << 32, P - 1].get(rng.gen_range(0..3)).unwrap());
            d
        }
    }
}

/// a digest different from `base` that collides with it under lossy folds
pub fn equal_alias_digest(rng: &mut impl Rng, base: &D4) -> D4 {
    let mut d = *base;
    match rng.gen_range(0..4) {
        0 => {
            // same limb sum
            let (i, j) = (rng.gen_range(0..4), rng.gen_range(0..4));
            if i != j {
                d[i] += F::ONE;
                d[j] -= F::ONE;
            } else {
                d[i] += F::ONE;
            }
        }
        1 => d.swap(0, 3),
        2 => d.rotate_left(1),
        _ => {
            d[rng.gen_range(0..4)] += f(1 << 32);
        }
    }
    if d == *base {
        d[0] += F::ONE;
    }
    d
}

pub fn slot_json(s: &Slot) -> Value {
    json!(s.to_pis().iter().map(|x| u(*x)).collect::<Vec<_>>())
}
pub fn vec_json(v: &[Slot]) -> Value {
    json!(v.iter().map(slot_json).collect::<Vec<_>>())
}

/// small exhaustive domain of one slot
pub fn slot_domain(level: usize) -> Vec<Slot> {
    let assets: &[u64] = &[0, 7];
    let fees: &[u64] = &[0, 10];
    let blocks: &[u64] = &[0, 1, 2, 3];
    let numbers: &[u64] = if level >= 2 { &[0, 5] } else { &[5] };
    let o1s: &[u64] = &[0, 1, M32];
    let o2s: &[u64] = if level >= 1 { &[0, 1, M32] } else { &[0, M32] };
    let e1s: &[u64] = &[0, 1, 2];
    let e2s: &[u64] = if level >= 1 { &[0, 1, 2] } else { &[1] };
    let nulls: &[u64] = if level >= 2 { &[1, 2, 3] } else { &[1, 2] };
    let mut out = vec![];
    for &a in assets {
        for &fe in fees {
            for &b in blocks {
                for &nm in numbers {
                    for &o1 in o1s {
                        for &o2 in o2s {
                            for &e1 in e1s {
                                for &e2 in e2s {
                                    for &nl in nulls {
                                        out.push(Slot {
                                            asset: f(a),
                                            out1: f(o1),
                                            out2: f(o2),
                                            fee: f(fe),
                                            nullifier: nul(nl),
                                            exit1: acct(e1),
                                            exit2: acct(e2),
                                            block_hash: blk(b),
                                            number: f(nm),
                                        });
                                    }
                                }
                            }
                        }
                    }
                }
            }
        }
    }
    out
}

/// a digest that differs from `d` in exactly one limb (position `k` or random)
pub fn limb_neighbour(rng: &mut impl Rng, d: &D4, k: Option<usize>) -> D4 {
    let k = k.unwrap_or_else(|| rng.gen_range(0..4));
    let mut o = *d;
    let delta = match rng.gen_range(0..4) {
        0 => F::ONE,
        1 => f(1 << 32),
        2 => f(crate::leaf::P - 1),
        _ => f(rng.gen_range(1..crate::leaf::P)),
    };
    o[k] += delta;
    o
}

/// rewrites an (accepted-shape) vector so that every digest comparison of the private wrapper sees
/// operands that differ in limb `k` only: exit accounts of different slots and of the same slot,
/// nullifiers of real slots, the block hash against the all-zero dummy sentinel; with `mismatch`
/// one real slot's block hash additionally becomes a one-limb neighbour of the reference (rejected)
pub fn near_equal_vector(rng: &mut impl Rng, n: usize, k: usize, mismatch: bool) -> (Vec<Slot>, Vec<D4>) {
    let (mut slots, pre) = random_vector(rng, n, Inject::None);
    // at least two real slots when there is room
    let mut block = [F::ZERO; 4];
    block[k] = f(rng.gen_range(1..crate::leaf::P));
    let want_real = if n >= 2 { rng.gen_range(2..=n) } else { 1 };
    let asset = slots[0].asset;
    let fee = f(rng.gen_range(0..=10000));
    let number = f(rng.gen_range(0..=M32));
    let acct = rand_d4(rng);
    let nul = rand_d4(rng);
    let budget: u64 = M32 / (2 * n as u64).max(1);
    for (i, s) in slots.iter_mut().enumerate() {
        if i < want_real {
            *s = Slot {
                asset,
                out1: f(rng.gen_range(1..=budget)),
                out2: f(rng.gen_range(1..=budget)),
                fee,
                nullifier: if i == 0 { nul } else { limb_neighbour(rng, &nul, Some(k)) },
                exit1: if i == 0 { acct } else { limb_neighbour(rng, &acct, Some(k)) },
                exit2: if rng.gen_bool(0.5) { acct } else { limb_neighbour(rng, &acct, Some(k)) },
                block_hash: block,
                number,
            };
        } else {
            // dummy whose fields are one-limb neighbours of the real ones
            s.block_hash = [F::ZERO; 4];
            s.asset = asset;
            s.nullifier = limb_neighbour(rng, &nul, Some(k));
            s.exit1 = limb_neighbour(rng, &acct, Some(k));
        }
    }
    // distinct nullifiers among real slots
    for i in 1..want_real {
        while (0..i).any(|j| slots[j].nullifier == slots[i].nullifier) {
            slots[i].nullifier = limb_neighbour(rng, &nul, Some(k));
        }
    }
    if mismatch && want_real >= 2 {
        let i = rng.gen_range(0..want_real);
        slots[i].block_hash = if rng.gen_bool(0.5) { limb_neighbour(rng, &block, Some(k)) } else { limb_neighbour(rng, &block, None) };
        if slots[i].block_hash == [F::ZERO; 4] {
            slots[i].block_hash[k] = block[k] + F::ONE;
        }
    }
    (slots, pre)
}

#[derive(Clone, Copy, Debug, PartialEq, Eq)]
pub enum Inject {
    None,
    Asset,
    Block,
    Fee,
    DupNull,
    SumOverflow,
    DummyCarriesRealNull,
}

/// random vector of N slots with forced collisions; real slots attainable
pub fn random_vector(rng: &mut impl Rng, n: usize, inject: Inject) -> (Vec<Slot>, Vec<D4>) {
    let asset = f(if rng.gen_bool(0.5) { 0 } else { rng.gen_range(0..=M32) });
    let block = if rng.gen_bool(0.3) { zero_alias_digest(rng) } else { rand_d4(rng) };
    let fee = f(rng.gen_range(0..=10000));
    let number = f(rng.gen_range(0..=M32));
    let naccts = rng.gen_range(1..=3usize);
    let mut accts: Vec<D4> = (0..naccts).map(|_| rand_d4(rng)).collect();
    if rng.gen_bool(0.3) {
        let a = equal_alias_digest(rng, &accts[0].clone());
        accts.push(a);
    }
    if rng.gen_bool(0.1) {
        accts.push(zero_alias_digest(rng));
    }
    if rng.gen_bool(0.3) {
        accts.push([F::ZERO; 4]);
    }
    if rng.gen_bool(0.3) {
        // one-limb neighbour of an account in use
        accts.push(limb_neighbour(rng, &accts[0].clone(), None));
    }
    // block numbers are never cross-checked by the wrapper: real slots of one accepted batch may carry different ones,
    // and the header must then show the FIRST real slot's
    let vary_numbers = rng.gen_bool(0.4);
    let k_real = match rng.gen_range(0..6) {
        0 => 0,
        1 => n,
        2 => 1,
        _ => rng.gen_range(0..=n),
    };
    let mut real_flags: Vec<bool> = (0..n).map(|i| i < k_real).collect();
    real_flags.shuffle(rng);
    // keep sums below 2^32 unless injected
    let budget: u64 = M32 / (2 * n as u64).max(1);
    let mut slots = vec![];
    for i in 0..n {
        let real = real_flags[i];
        let amt = |rng: &mut dyn rand::RngCore| -> u64 {
            match rng.gen_range(0..5) {
                0 => 0,
                1 => 1,
                2 => budget,
                _ => rng.gen_range(0..=budget),
            }
        };
        let s = if real {
            Slot {
                asset,
                out1: f(amt(rng)),
                out2: f(amt(rng)),
                fee,
                nullifier: rand_d4(rng),
                exit1: accts[rng.gen_range(0..accts.len())],
                exit2: accts[rng.gen_range(0..accts.len())],
                block_hash: block,
                number: if vary_numbers { f(rng.gen_range(0..=M32)) } else { number },
            }
        } else {
            // dummy: arbitrary contents (the wrapper must mask them); half are leaf-attainable dummies
            let wild = rng.gen_bool(0.5);
            Slot {
                asset,
                out1: if wild { rand_canon(rng) } else { F::ZERO },
                out2: if wild { f(rng.gen_range(0..=M32)) } else { F::ZERO },
                fee: if wild { rand_canon(rng) } else { f(rng.gen_range(0..=10000)) },
                nullifier: rand_d4(rng),
                exit1: if wild { accts[rng.gen_range(0..accts.len())] } else { [F::ZERO; 4] },
                exit2: if wild { rand_d4(rng) } else { [F::ZERO; 4] },
                block_hash: [F::ZERO; 4],
                number: if wild { rand_canon(rng) } else { F::ZERO },
            }
        };
        slots.push(s);
    }
    let reals: Vec<usize> = (0..n).filter(|&i| real_flags[i]).collect();
    // nullifiers that collide under lossy folds but are distinct
    if reals.len() >= 2 && rng.gen_bool(0.3) {
        let base = slots[reals[0]].nullifier;
        slots[reals[1]].nullifier = equal_alias_digest(rng, &base);
    } else if reals.len() >= 2 && rng.gen_bool(0.25) {
        let base = slots[reals[0]].nullifier;
        slots[reals[1]].nullifier = limb_neighbour(rng, &base, None);
    }
    match inject {
        Inject::None => {}
        Inject::Asset => {
            let i = rng.gen_range(0..n);
            slots[i].asset += F::ONE;
        }
        Inject::Block => {
            if reals.len() >= 2 {
                let i = reals[rng.gen_range(0..reals.len())];
                match rng.gen_range(0..4) {
                    0 => slots[i].block_hash[rng.gen_range(0..4)] += F::ONE,
                    1 => slots[i].block_hash = equal_alias_digest(rng, &block),
                    3 => {
                        // the reference with a proper non-empty subset of limbs zeroed (still a real slot)
                        let mut b = block;
                        let mask: u8 = rng.gen_range(1..15);
                        for k in 0..4 {
                            if mask & (1 << k) != 0 {
                                b[k] = F::ZERO;
                            }
                        }
                        if b == [F::ZERO; 4] {
                            b = block;
                            b[0] += F::ONE;
                        }
                        slots[i].block_hash = b;
                    }
                    _ => slots[i].block_hash = zero_alias_digest(rng),
                }
                if slots[i].block_hash == block {
                    slots[i].block_hash[0] += F::ONE;
                }
            }
        }
        Inject::Fee => {
            if reals.len() >= 2 {
                let i = reals[rng.gen_range(0..reals.len())];
                slots[i].fee = f((u(slots[i].fee) + 1) % 10001);
            }
        }
        Inject::DupNull => {
            if reals.len() >= 2 {
                let a = reals[rng.gen_range(0..reals.len())];
                let mut b = reals[rng.gen_range(0..reals.len())];
                if a == b {
                    b = *reals.iter().find(|&&x| x != a).unwrap();
                }
                slots[b].nullifier = slots[a].nullifier;
            }
        }
        Inject::SumOverflow => {
            if !reals.is_empty() {
                // one account receives M32 + delta over 2..2k outputs
                let target = accts[0];
                let parts = rng.gen_range(2..=(2 * reals.len()).max(2));
                let delta = *[0u64, 1, 2].choose(rng).unwrap(); // total = 2^32-1+delta: 0 is still accepted
                let total = M32 + delta;
                let mut remaining = total;
                let mut placed = 0;
                'outer: for &i in &reals {
                    for which in 0..2 {
                        if placed == parts {
                            break 'outer;
                        }
                        let left = parts - placed;
                        let mut v = if left == 1 { remaining } else { (remaining / left as u64).min(M32) };
                        v = v.min(M32);
                        if which == 0 {
                            slots[i].exit1 = target;
                            slots[i].out1 = f(v);
                        } else {
                            slots[i].exit2 = target;
                            slots[i].out2 = f(v);
                        }
                        remaining -= v;
                        placed += 1;
                    }
                }
                // other outputs of real slots that still hit `target` are set to zero
                let mut seen = 0;
                for &i in &reals {
                    for which in 0..2 {
                        seen += 1;
                        if seen > placed {
                            if which == 0 && slots[i].exit1 == target {
                                slots[i].out1 = F::ZERO;
                            }
                            if which == 1 && slots[i].exit2 == target {
                                slots[i].out2 = F::ZERO;
                            }
                        }
                    }
                }
            }
        }
        Inject::DummyCarriesRealNull => {
            let dummies: Vec<usize> = (0..n).filter(|&i| !real_flags[i]).collect();
            if !dummies.is_empty() && !reals.is_empty() {
                let d = dummies[rng.gen_range(0..dummies.len())];
                slots[d].nullifier = slots[reals[0]].nullifier;
            }
            if dummies.len() >= 2 {
                slots[dummies[1]].nullifier = slots[dummies[0]].nullifier;
            }
        }
    }
    let pre: Vec<D4> = (0..n).map(|_| rand_d4(rng)).collect();
    (slots, pre)
}

fn pis_of(v: &[Slot]) -> Vec<Vec<F>> {
    v.iter().map(|s| s.to_pis()).collect()
}

fn u64s(v: &[F]) -> Vec<u64> {
    v.iter().map(|x| u(*x)).collect()
}

/// oracles shared by C06..C09 on one judged vector
fn check_private_vector(prop: &str, w: &PrivW, slots: &[Slot], pre: &[D4], rep: &Report, family: &str, rng: &mut impl Rng) {
    let n = slots.len();
    let (acc, out, run) = w.judge(&pis_of(slots), pre, &[]);
    rep.eval();
    rep.count(&format!("family:{family}"));
    // read back what was judged
    let (ch, prb) = w.read_children(&run);
    let jslots: Vec<Slot> = ch.iter().map(|c| Slot::from_pis(c)).collect();
    let macc = priv_model_accept(&jslots);
    let all_attainable_reals = jslots.iter().all(|s| !s.is_real() || attainable(s));
    let fp = (family.to_string(), ch.iter().map(|c| u64s(c)).collect::<Vec<_>>(), prb.iter().map(canon).collect::<Vec<_>>());
    if acc {
        rep.count("accepted");
    } else {
        rep.count("rejected");
        if let Err(r) = &macc {
            rep.count(&format!("model_reject:{r:?}"));
        }
    }
    let replay = || json!({"engine":"cso-private-wrapper","n":n,"family":family,"children":vec_json(&jslots),
        "preimages": prb.iter().map(|p| json!(canon(p))).collect::<Vec<_>>()});
    // Child inputs that the wrapper ties together with copy constraints (the asset ids) are ONE variable in the
    // wrapper-only form: a supplied vector that pins them differently contradicts a copy constraint, i.e. the circuit
    // rejects the SUPPLIED vector. That is itself an acceptance verdict and is compared with the rule; afterwards the
    // oracles continue on the vector that was actually evaluated (read back above).
    if !run.conflicts.is_empty() && ch != pis_of(slots) {
        rep.count("supplied_vector_contradicts_a_copy_constraint(rejected)");
        if prop == "C07" {
            let supplied_ok = priv_model_accept(slots);
            rep.nontrivial(&("copy-reject", family.to_string(), pis_of(slots).iter().map(|c| u64s(c)).collect::<Vec<_>>()));
            if supplied_ok.is_ok() && slots.iter().all(|s| !s.is_real() || attainable(s)) {
                rep.violation("private-wrapper acceptance / copy constraint rejects an allowed vector",
                    &format!("private-batch wrapper (N={n}) ties child inputs together that the acceptance rule leaves free: a vector the rule allows contradicts a copy constraint"),
                    json!({"engine":"cso-private-wrapper","n":n,"family":family,"children":vec_json(slots),
                        "conflicts": run.conflicts.iter().map(|c| json!({"target": format!("{:?}", c.target), "kept": u(c.kept), "dropped": u(c.dropped)})).collect::<Vec<_>>()}));
            }
        }
    }
    match prop {
        "C06" | "C34x" => {
            if acc {
                let expect = priv_model_output(&jslots, &prb);
                if macc.is_ok() && jslots.iter().any(|s| s.is_real()) {
                    rep.nontrivial(&fp);
                } else if macc.is_ok() {
                    rep.count("accepted_all_dummy");
                    rep.nontrivial(&fp);
                }
                if out != expect {
                    let pos = out.iter().zip(&expect).position(|(a, b)| a != b).unwrap_or(out.len().min(expect.len()));
                    let region = if out.len() != expect.len() { "length" } else if pos < 8 { "header" } else if pos < 8 + 10 * n { "exit-slots" } else if pos < 8 + 14 * n { "nullifiers" } else { "padding" };
                    rep.violation(
                        &format!("private-wrapper output / {region}"),
                        &format!("accepted private batch (N={n}) whose public output differs from the specified aggregate at position {pos} ({region})"),
                        json!({"case": replay(), "observed": u64s(&out), "expected": u64s(&expect)}),
                    );
                }
            }
        }
        "C07" => {
            if all_attainable_reals {
                if acc != macc.is_ok() {
                    let (ok, _) = if rep.num_violations() < 6 { w.cso.confirm(&run) } else { (acc, None) };
                    if ok == acc {
                        rep.violation(
                            &format!("private-wrapper acceptance / circuit={} model={:?}", acc, macc),
                            &format!("private-batch wrapper (N={n}) {} a vector the acceptance rule {} ({:?})",
                                if acc {"accepts"} else {"rejects"}, if macc.is_ok() {"admits"} else {"forbids"}, macc),
                            replay(),
                        );
                    } else {
                        rep.inconclusive("CSO and real prover/verifier disagree on a wrapper-only circuit");
                    }
                }
                if macc.is_err() || jslots.iter().any(|s| s.is_real()) {
                    rep.nontrivial(&fp);
                }
                // slot order never matters
                if n >= 2 {
                    let mut idx: Vec<usize> = (0..n).collect();
                    idx.shuffle(rng);
                    let ps: Vec<Slot> = idx.iter().map(|&i| jslots[i].clone()).collect();
                    let pp: Vec<D4> = idx.iter().map(|&i| prb[i]).collect();
                    let (acc2, _, _) = w.judge(&pis_of(&ps), &pp, &[]);
                    rep.eval();
                    rep.count("permutation_checks");
                    if acc2 != acc {
                        rep.violation(
                            "private-wrapper acceptance / order-dependent",
                            &format!("acceptance of a private batch (N={n}) changed under slot permutation {idx:?}"),
                            json!({"case": replay(), "perm": idx}),
                        );
                    }
                }
                // non-asset fields of dummy slots never matter
                let dummies: Vec<usize> = (0..n).filter(|&i| !jslots[i].is_real()).collect();
                if !dummies.is_empty() {
                    let mut v2 = jslots.clone();
                    for &d in &dummies {
                        let a = v2[d].asset;
                        v2[d] = Slot {
                            asset: a,
                            out1: rand_canon(rng),
                            out2: rand_canon(rng),
                            fee: rand_canon(rng),
                            nullifier: if rng.gen_bool(0.5) { rand_d4(rng) } else { jslots[(d + 1) % n].nullifier },
                            exit1: rand_d4(rng),
                            exit2: rand_d4(rng),
                            block_hash: [F::ZERO; 4],
                            number: rand_canon(rng),
                        };
                    }
                    let (acc3, _, _) = w.judge(&pis_of(&v2), &prb, &[]);
                    rep.eval();
                    rep.count("dummy_content_checks");
                    if acc3 != acc {
                        rep.violation(
                            "private-wrapper acceptance / dummy-content-dependent",
                            &format!("acceptance of a private batch (N={n}) changed when only non-asset fields of dummy slots changed"),
                            json!({"case": replay(), "changed": vec_json(&v2)}),
                        );
                    }
                }
            }
        }
        "C08" => {
            if acc && all_attainable_reals {
                rep.nontrivial(&fp);
                // conservation, directly on the circuit output
                let mut total_out: u128 = 0;
                let mut per_acct: BTreeMap<[u64; 4], u128> = BTreeMap::new();
                for k in 0..2 * n {
                    let base = 8 + 5 * k;
                    let s = u(out[base]) as u128;
                    total_out += s;
                    let a = [u(out[base + 1]), u(out[base + 2]), u(out[base + 3]), u(out[base + 4])];
                    if s != 0 || a != [0; 4] {
                        *per_acct.entry(a).or_insert(0) += s;
                    }
                }
                let mut total_in: u128 = 0;
                let mut want: BTreeMap<[u64; 4], u128> = BTreeMap::new();
                for s in jslots.iter().filter(|s| s.is_real()) {
                    total_in += u(s.out1) as u128 + u(s.out2) as u128;
                    *want.entry(canon(&s.exit1)).or_insert(0) += u(s.out1) as u128;
                    *want.entry(canon(&s.exit2)).or_insert(0) += u(s.out2) as u128;
                }
                if total_out != total_in {
                    rep.violation(
                        "private-wrapper conservation / total",
                        &format!("accepted private batch (N={n}): output exit amounts sum to {total_out}, real slots paid {total_in}"),
                        json!({"case": replay(), "output": u64s(&out)}),
                    );
                }
                for (a, s) in per_acct.iter() {
                    if *s != 0 && want.get(a).copied().unwrap_or(0) != *s {
                        rep.violation(
                            "private-wrapper conservation / per-account",
                            &format!("accepted private batch (N={n}): account {a:?} is credited {s} but real slots sent it {}", want.get(a).copied().unwrap_or(0)),
                            json!({"case": replay(), "output": u64s(&out)}),
                        );
                    }
                }
                for (a, s) in want.iter() {
                    if *s != 0 && per_acct.get(a).copied().unwrap_or(0) != *s {
                        rep.violation(
                            "private-wrapper conservation / per-account-missing",
                            &format!("accepted private batch (N={n}): real slots sent {s} to {a:?} but the output credits {}", per_acct.get(a).copied().unwrap_or(0)),
                            json!({"case": replay(), "output": u64s(&out)}),
                        );
                    }
                }
                if jslots.iter().any(|s| !s.is_real() && (s.out1 != F::ZERO || s.out2 != F::ZERO)) {
                    rep.count("dummy_with_nonzero_amounts_conserved");
                }
                if jslots.iter().any(|s| s.is_real() && (s.exit1 == [F::ZERO; 4] || s.exit2 == [F::ZERO; 4])) {
                    rep.count("real_slot_paying_zero_account");
                }
            }
        }
        "C09" => {
            if acc && all_attainable_reals && n >= 1 {
                rep.nontrivial(&fp);
                let real_pays_zero = jslots.iter().any(|s| s.is_real() && ((s.exit1 == [F::ZERO; 4] && s.out1 != F::ZERO) || (s.exit2 == [F::ZERO; 4] && s.out2 != F::ZERO)));
                // every dummy / duplicate output slot is all-zero
                let groups = group_pairs(&jslots);
                for k in 0..2 * n {
                    let base = 8 + 5 * k;
                    let slot = &out[base..base + 5];
                    let is_dummy_pos = !jslots[k / 2].is_real();
                    let (first, _, _) = groups[k];
                    let must_be_zero = !first || (is_dummy_pos && !real_pays_zero);
                    if must_be_zero && slot.iter().any(|x| *x != F::ZERO) {
                        rep.violation(
                            "private-wrapper hiding / non-zero dummy-or-duplicate slot",
                            &format!("output exit slot {k} of an accepted private batch (N={n}) belongs to a {} but is not all-zero",
                                if !first {"duplicate account"} else {"dummy leaf"}),
                            json!({"case": replay(), "output": u64s(&out)}),
                        );
                    }
                }
                if real_pays_zero {
                    rep.count("real_slot_pays_zero_account(dummy position may carry zero-account sum)");
                }
                // permutations
                let perms: Vec<Vec<usize>> = if n <= 4 { all_perms(n) } else { (0..12).map(|_| { let mut p: Vec<usize> = (0..n).collect(); p.shuffle(rng); p }).collect() };
                let nonzero_slots = |o: &[F]| -> Vec<Vec<u64>> {
                    let mut v: Vec<Vec<u64>> = (0..2 * n).map(|k| u64s(&o[8 + 5 * k..13 + 5 * k])).filter(|s| s.iter().any(|x| *x != 0)).collect();
                    v.sort();
                    v
                };
                for p in perms.iter() {
                    let ps: Vec<Slot> = p.iter().map(|&i| jslots[i].clone()).collect();
                    let pp: Vec<D4> = p.iter().map(|&i| prb[i]).collect();
                    let (acc2, out2, _) = w.judge(&pis_of(&ps), &pp, &[]);
                    rep.eval();
                    rep.count("permutations_judged");
                    if !acc2 {
                        rep.violation("private-wrapper hiding / permutation rejected",
                            &format!("permutation {p:?} of an accepted private batch (N={n}) is rejected"), json!({"case": replay(), "perm": p}));
                        continue;
                    }
                    // the block number of a real leaf statement is fixed by its block hash (the leaf circuit binds it inside the
                    // header preimage, C03), so real slots of an accepted batch of LEAF STATEMENTS agree on it. Free child-PI vectors
                    // in which they disagree are outside C09's domain for this one field (the wrapper does not cross-check block
                    // numbers — C07 — and shows the first real slot's — C06, which is judged on those vectors).
                    let numbers_agree = {
                        let nums: Vec<F> = jslots.iter().filter(|s| s.block_hash != [F::ZERO; 4]).map(|s| s.number).collect();
                        nums.windows(2).all(|w| w[0] == w[1])
                    };
                    let hdr_len = if numbers_agree { 8 } else { 7 };
                    if !numbers_agree {
                        rep.count("permutation_header_block_number_not_compared(real slots disagree on it: not leaf-attainable)");
                    }
                    if out2[..hdr_len] != out[..hdr_len] {
                        rep.violation("private-wrapper hiding / header depends on order",
                            &format!("header of the private-batch output changed under slot permutation {p:?}"),
                            json!({"case": replay(), "perm": p, "before": u64s(&out[..8]), "after": u64s(&out2[..8])}));
                    }
                    if out2[8 + 10 * n..] != out[8 + 10 * n..] {
                        rep.violation("private-wrapper hiding / nullifier region depends on order",
                            &format!("nullifier region of the private-batch output changed under slot permutation {p:?}"),
                            json!({"case": replay(), "perm": p, "before": u64s(&out[8 + 10 * n..]), "after": u64s(&out2[8 + 10 * n..])}));
                    }
                    if nonzero_slots(&out2) != nonzero_slots(&out) {
                        rep.violation("private-wrapper hiding / exit groups change under order",
                            &format!("set of non-zero exit slots changed under slot permutation {p:?}"),
                            json!({"case": replay(), "perm": p}));
                    }
                    // groups appear in slot order of the permuted batch
                    let expect2 = priv_model_output(&ps, &pp);
                    if out2[8..8 + 10 * n] != expect2[8..8 + 10 * n] {
                        rep.violation("private-wrapper hiding / exit groups not in slot order",
                            &format!("exit slots of permuted batch {p:?} are not the in-slot-order grouping"),
                            json!({"case": replay(), "perm": p, "observed": u64s(&out2), "expected": u64s(&expect2)}));
                    }
                }
                // dummy contents never influence the output
                let dummies: Vec<usize> = (0..n).filter(|&i| !jslots[i].is_real()).collect();
                if !dummies.is_empty() {
                    for _ in 0..3 {
                        let mut v2 = jslots.clone();
                        for &d in &dummies {
                            let a = v2[d].asset;
                            v2[d] = Slot { asset: a, out1: rand_canon(rng), out2: rand_canon(rng), fee: rand_canon(rng), nullifier: rand_d4(rng),
                                exit1: rand_d4(rng), exit2: rand_d4(rng), block_hash: [F::ZERO; 4], number: rand_canon(rng) };
                        }
                        let (acc3, out3, _) = w.judge(&pis_of(&v2), &prb, &[]);
                        rep.eval();
                        rep.count("dummy_replacements_judged");
                        if !acc3 || out3 != out {
                            rep.violation("private-wrapper hiding / dummy contents influence output",
                                &format!("replacing the contents of dummy slots {dummies:?} (same asset) changed the output or acceptance"),
                                json!({"case": replay(), "replaced": vec_json(&v2), "before": u64s(&out), "after": u64s(&out3), "accepted_after": acc3}));
                        }
                    }
                }
            }
        }
        _ => {}
    }
    rep.sample_family(family, json!({"children": vec_json(&jslots), "accepted": acc, "model": format!("{macc:?}")}), 1);
}

pub fn all_perms(n: usize) -> Vec<Vec<usize>> {
    fn rec(cur: &mut Vec<usize>, used: &mut Vec<bool>, n: usize, out: &mut Vec<Vec<usize>>) {
        if cur.len() == n {
            out.push(cur.clone());
            return;
        }
        for i in 0..n {
            if !used[i] {
                used[i] = true;
                cur.push(i);
                rec(cur, used, n, out);
                cur.pop();
                used[i] = false;
            }
        }
    }
    let mut out = vec![];
    rec(&mut vec![], &mut vec![false; n], n, &mut out);
    out
}

const INJECTS: [Inject; 7] = [Inject::None, Inject::Asset, Inject::Block, Inject::Fee, Inject::DupNull, Inject::SumOverflow, Inject::DummyCarriesRealNull];

pub fn run_private(prop: &str, ctx: &Ctx) -> i32 {
    let rule = "case = vector of N leaf statements (21 felts each) + N dummy preimages pinned on the free child-PI targets of the private-batch wrapper built by the repository's own constraint builder; \
        judged by evaluating every gate constraint; non-trivial = judged vector with >=1 real slot or a model-rejected vector (C07), accepted vector (C06/C08/C09); distinct by judged child values + preimages";
    let rep = Report::new(prop, "exploration", rule);
    rep.assume("wrapper-only circuit (hook H1) = same constraint builder as the shipped recursive circuit; pinned to it by sampled full-recursive cross-checks in C06");
    rep.assume("real slots are drawn from statements the leaf circuit can attest (C01 ranges); dummy slots carry arbitrary felts");
    let mut ws: BTreeMap<usize, PrivW> = BTreeMap::new();
    let sizes: Vec<usize> = ctx.tier.pick(vec![1, 2, 3, 4, 8], vec![1, 2, 3, 4, 5, 8, 16]);
    for &n in &sizes {
        match PrivW::build(n) {
            Ok(w) => {
                ws.insert(n, w);
            }
            Err(e) => {
                rep.inconclusive(&format!("wrapper-only circuit N={n} did not build: {e}"));
                return rep.finish(ctx, 1);
            }
        }
    }
    rep.set_extra("circuits", json!(ws.iter().map(|(n, w)| json!({"n": n, "rows": w.cso.degree, "generators": w.cso.gen_ids.len()})).collect::<Vec<_>>()));
    // free-input audit on every wrapper
    for (n, w) in ws.iter() {
        let mut rng = ctx.rng("audit");
        let (s, p) = random_vector(&mut rng, *n, Inject::None);
        let free = w.cso.free_inputs(&w.pins(&pis_of(&s), &p), w.cso.num_virtual_targets());
        if !free.is_empty() {
            rep.note(&format!("N={n}: {} prover-controlled free inputs unknown to the harness", free.len()));
            rep.count("free_inputs_found");
        }
    }
    // --- exhaustive small domain, N = 1 and N = 2
    let lvl1 = 2usize;
    let dom1 = slot_domain(lvl1);
    let pre_choices = [[f(1), f(2), f(3), f(4)], [f(P - 1), f(0), f(5), f(M32 + 1)]];
    {
        let w = &ws[&1];
        dom1.par_iter().enumerate().for_each(|(i, s)| {
            let mut rng = ctx.sub_rng("ex1", i as u64);
            for p in pre_choices.iter() {
                check_private_vector(prop, w, &[s.clone()], &[*p], &rep, "exhaustive-N1", &mut rng);
            }
        });
        rep.set_extra("exhaustive_N1_domain", json!(dom1.len() * 2));
    }
    {
        let w = &ws[&2];
        let dom2 = slot_domain(ctx.tier.pick(0, 1));
        let total = dom2.len() * dom2.len();
        // quick: every pair of the level-0 domain, strided so the run stays within budget; thorough: all pairs of level 1
        let stride = ctx.tier.pick(if prop == "C09" { 23 } else { 5 }, if prop == "C09" { 11 } else { 1 });
        let offset = (ctx.seed as usize) % stride;
        let idxs: Vec<usize> = (0..total).filter(|i| i % stride == offset).collect();
        idxs.par_iter().for_each(|&i| {
            if ctx.over_budget() {
                return;
            }
            let a = &dom2[i / dom2.len()];
            let b = &dom2[i % dom2.len()];
            let mut rng = ctx.sub_rng("ex2", i as u64);
            check_private_vector(prop, w, &[a.clone(), b.clone()], &[pre_choices[0], pre_choices[1]], &rep, "exhaustive-N2", &mut rng);
        });
        rep.set_extra("exhaustive_N2", json!({"domain_pairs": total, "stride": stride, "explored": idxs.len(), "complete": stride == 1}));
        rep.set_exhaustive(false);
    }
    // --- random with forced collisions
    let per_n = ctx.tier.pick(if prop == "C09" { 60 } else { 600 }, if prop == "C09" { 1500 } else { 20000 });
    for (&n, w) in ws.iter() {
        if n < 2 {
            continue;
        }
        let cnt = if n >= 16 { per_n / 40 + 2 } else if n >= 8 { per_n / 6 + 4 } else { per_n };
        (0..cnt).into_par_iter().for_each(|i| {
            if ctx.over_budget() {
                return;
            }
            let mut rng = ctx.sub_rng(&format!("rand{n}"), i as u64);
            let inj = INJECTS[i % INJECTS.len()];
            let (s, p) = random_vector(&mut rng, n, inj);
            check_private_vector(prop, w, &s, &p, &rep, &format!("random-N{n}-{inj:?}"), &mut rng);
        });
    }
    // samples
    {
        let mut rng = ctx.rng("samples");
        for n in [2usize, 4] {
            let (s, p) = random_vector(&mut rng, n, Inject::None);
            rep.sample(json!({"n": n, "children": vec_json(&s), "preimages": p.iter().map(|x| json!(canon(x))).collect::<Vec<_>>() }));
        }
    }
    if prop == "C06" {
        cross_check_full_forms(ctx, &rep, &ws);
    }
    rep.finish(ctx, ctx.tier.pick(200, 2000))
}

/// Pin the wrapper-only form to the shipped recursive circuit: same vectors through
/// PrivateBatchCircuit::new over a fake leaf (F) and over the real leaf (R).
fn cross_check_full_forms(ctx: &Ctx, rep: &Report, ws: &BTreeMap<usize, PrivW>) {
    use crate::leaf::{BaselineOpts, LeafAsg, LeafCircuit};
    let n = 2usize;
    let w = &ws[&n];
    let fake = FakeLeaf::build(LEAF_PI);
    let full = match PrivFull::build(&fake.data, n) {
        Ok(x) => x,
        Err(e) => {
            rep.inconclusive(&format!("full private-batch circuit over fake leaf did not build: {e}"));
            return;
        }
    };
    let cases = ctx.tier.pick(4usize, 40);
    let mut rng = ctx.rng("fullF");
    for i in 0..cases {
        if ctx.over_budget() {
            break;
        }
        let inj = if i % 4 == 3 { Inject::DupNull } else { Inject::None };
        let (mut s, p) = random_vector(&mut rng, n, inj);
        // fake leaf range-checks outs/fee to 32 bits: keep dummy garbage within that
        for x in s.iter_mut() {
            x.out1 = f(u(x.out1) & M32);
            x.out2 = f(u(x.out2) & M32);
            x.fee = f(u(x.fee) & M32);
        }
        let proofs: Vec<_> = s.iter().map(|x| fake.prove(&x.to_pis()).unwrap()).collect();
        let (acc_w, out_w, _) = w.judge(&pis_of(&s), &p, &[]);
        let res = std::panic::catch_unwind(std::panic::AssertUnwindSafe(|| full.prove(&proofs, &p)));
        rep.eval();
        rep.count("full_form_F_cases");
        match res {
            Ok(Ok(proof)) => {
                if !acc_w || proof.public_inputs != out_w {
                    rep.violation("private-wrapper output / full circuit differs from wrapper-only form",
                        "the shipped recursive private-batch circuit (over a fake leaf) and the wrapper-only instantiation disagree",
                        json!({"children": vec_json(&s), "full": u64s(&proof.public_inputs), "wrapper_only": u64s(&out_w), "wrapper_only_accepts": acc_w}));
                }
                rep.nontrivial(&("F", u64s(&proof.public_inputs)));
            }
            _ => {
                if acc_w {
                    rep.violation("private-wrapper output / full circuit rejects what wrapper-only accepts",
                        "the shipped recursive private-batch circuit cannot prove a vector the wrapper-only instantiation accepts",
                        json!({"children": vec_json(&s)}));
                }
                rep.nontrivial(&("F-rej", vec_json(&s).to_string()));
            }
        }
    }
    // R: real leaf proofs
    let lc = match LeafCircuit::build() {
        Ok(x) => x,
        Err(e) => {
            rep.inconclusive(&format!("leaf circuit did not build: {e}"));
            return;
        }
    };
    let full_r = match PrivFull::build(&lc.cso.data, n) {
        Ok(x) => x,
        Err(e) => {
            rep.inconclusive(&format!("full private-batch circuit over the real leaf did not build: {e}"));
            return;
        }
    };
    let cases = ctx.tier.pick(2usize, 12);
    let mut rng = ctx.rng("fullR");
    for i in 0..cases {
        if ctx.over_budget() {
            break;
        }
        // two real leaves sharing block/asset/fee is hard to get from independent baselines:
        // use one real + one dummy, and (odd cases) dummy + real
        let dd = rng.gen_range(0..4usize);
        let mut real = LeafAsg::baseline(&mut rng, &BaselineOpts { depth: dd, dummy: false });
        real.asset = F::ZERO;
        real.recompute(false);
        let mut dummy = LeafAsg::baseline(&mut rng, &BaselineOpts { depth: 0, dummy: true });
        dummy.asset = F::ZERO;
        dummy.recompute(true);
        let asgs = if i % 2 == 0 { vec![real, dummy] } else { vec![dummy, real] };
        let mut proofs = vec![];
        for a in &asgs {
            let (pre, pins) = lc.pins(a);
            let run = lc.cso.run(&pre, &pins, false);
            let (ok, pr) = lc.cso.confirm(&run);
            if !ok {
                rep.inconclusive("could not produce a real leaf proof for the full-form cross-check");
                return;
            }
            proofs.push(pr.unwrap());
        }
        let p: Vec<D4> = (0..n).map(|_| rand_d4(&mut rng)).collect();
        let children: Vec<Vec<F>> = proofs.iter().map(|pr| pr.public_inputs.clone()).collect();
        let (acc_w, out_w, _) = w.judge(&children, &p, &[]);
        rep.eval();
        rep.count("full_form_R_cases");
        match full_r.prove(&proofs, &p) {
            Ok(proof) => {
                if !acc_w || proof.public_inputs != out_w {
                    rep.violation("private-wrapper output / full circuit over real leaf differs from wrapper-only form",
                        "the shipped recursive private-batch circuit over the real leaf and the wrapper-only instantiation disagree",
                        json!({"children": children.iter().map(|c| u64s(c)).collect::<Vec<_>>(), "full": u64s(&proof.public_inputs), "wrapper_only": u64s(&out_w)}));
                }
                rep.nontrivial(&("R", u64s(&proof.public_inputs)));
            }
            Err(e) => {
                if acc_w {
                    rep.violation("private-wrapper output / full circuit over real leaf rejects",
                        &format!("shipped private-batch circuit over the real leaf cannot prove an accepted vector: {e}"), json!({}));
                }
            }
        }
    }
}

// ---------------------------------------------------------------------------
// public wrapper
// ---------------------------------------------------------------------------

/// an attainable inner statement = output of the private model on an accepted random vector
pub fn random_inner(rng: &mut impl Rng, n: usize, key: Option<(D4, F, F)>, dummy: bool) -> Vec<F> {
    loop {
        let (mut s, p) = random_vector(rng, n, Inject::None);
        if dummy {
            for x in s.iter_mut() {
                x.block_hash = [F::ZERO; 4];
            }
        } else {
            if !s.iter().any(|x| x.is_real()) {
                continue;
            }
            if let Some((b, a, fe)) = key {
                for x in s.iter_mut() {
                    x.asset = a;
                    if x.is_real() {
                        x.block_hash = b;
                        x.fee = fe;
                    }
                }
            }
        }
        if priv_model_accept(&s).is_ok() {
            return priv_model_output(&s, &p);
        }
    }
}

#[derive(Clone, Copy, Debug)]
pub enum PubInject {
    None,
    Block,
    Asset,
    Fee,
}

pub fn random_inners(rng: &mut impl Rng, m: usize, n: usize, inj: PubInject) -> Vec<Vec<F>> {
    let kb = if rng.gen_bool(0.3) { zero_alias_digest(rng) } else { rand_d4(rng) };
    let key = (kb, f(if rng.gen_bool(0.5) { 0 } else { rng.gen_range(0..=M32) }), f(rng.gen_range(0..=10000)));
    let mut inners: Vec<Vec<F>> = vec![];
    let mut realflags: Vec<bool> = (0..m).map(|_| rng.gen_bool(0.7)).collect();
    if rng.gen_bool(0.1) {
        realflags.iter_mut().for_each(|x| *x = false);
    }
    for i in 0..m {
        let mut inner = random_inner(rng, n, Some(key), !realflags[i]);
        if !realflags[i] && rng.gen_bool(0.5) {
            // hostile dummy inner: zero block hash but arbitrary everything else
            for k in 0..inner.len() {
                if !(3..7).contains(&k) {
                    inner[k] = rand_canon(rng);
                }
            }
        }
        inners.push(inner);
    }
    let reals: Vec<usize> = (0..m).filter(|&i| realflags[i]).collect();
    if reals.len() >= 2 {
        let i = reals[rng.gen_range(1..reals.len())];
        match inj {
            PubInject::None => {}
            PubInject::Block => match rng.gen_range(0..4) {
                0 => inners[i][3 + rng.gen_range(0..4)] += F::ONE,
                3 => {
                    // the reference with a proper, non-empty subset of its limbs zeroed: still a REAL inner (not the all-zero
                    // sentinel) whose block hash differs from the reference only where it is zero
                    let mut b = key.0;
                    let mask: u8 = rng.gen_range(1..15);
                    for k in 0..4 {
                        if mask & (1 << k) != 0 {
                            b[k] = F::ZERO;
                        }
                    }
                    if b == [F::ZERO; 4] || b == key.0 {
                        b = key.0;
                        b[0] += F::ONE;
                    }
                    inners[i][3..7].copy_from_slice(&b);
                }
                1 => {
                    let b = equal_alias_digest(rng, &key.0);
                    inners[i][3..7].copy_from_slice(&b);
                }
                _ => {
                    let mut b = zero_alias_digest(rng);
                    if b == key.0 {
                        b[0] += F::ONE;
                    }
                    inners[i][3..7].copy_from_slice(&b);
                }
            },
            PubInject::Asset => inners[i][1] += F::ONE,
            PubInject::Fee => inners[i][2] += F::ONE,
        }
    }
    // block numbers, slots, nullifiers are never cross-checked: perturb them freely
    for i in 0..m {
        if rng.gen_bool(0.3) {
            inners[i][7] = rand_canon(rng);
        }
    }
    inners
}

fn check_public_vector(prop: &str, w: &PubW, inners: &[Vec<F>], addr: &D4, rep: &Report, family: &str, rng: &mut impl Rng) {
    let (m, n) = (w.m, w.n);
    let (acc, out, run) = w.judge(inners, addr, &[]);
    rep.eval();
    rep.count(&format!("family:{family}"));
    let jin: Vec<Vec<F>> = w.child.iter().map(|ts| w.cso.get_many(&run, ts)).collect();
    let jaddr_v = w.cso.get_many(&run, &w.addr);
    let jaddr: D4 = [jaddr_v[0], jaddr_v[1], jaddr_v[2], jaddr_v[3]];
    let macc = pub_model_accept(&jin);
    let fp = (family.to_string(), jin.iter().map(|c| u64s(c)).collect::<Vec<_>>(), canon(&jaddr));
    let replay = || json!({"engine":"cso-public-wrapper","m":m,"n":n,"family":family,"inners": jin.iter().map(|c| u64s(c)).collect::<Vec<_>>(), "address": canon(&jaddr)});
    rep.count(if acc { "accepted" } else { "rejected" });
    // same as in the private wrapper: a supplied vector that contradicts a copy constraint is rejected as supplied
    if !run.conflicts.is_empty() && jin.as_slice() != inners {
        rep.count("supplied_vector_contradicts_a_copy_constraint(rejected)");
        if prop == "C13" {
            rep.nontrivial(&("copy-reject", family.to_string(), inners.iter().map(|c| u64s(c)).collect::<Vec<_>>()));
            if pub_model_accept(inners) {
                rep.violation("public-wrapper acceptance / copy constraint rejects an allowed vector",
                    &format!("public-batch wrapper (M={m},N={n}) ties inner inputs together that the acceptance rule leaves free: a vector the rule allows contradicts a copy constraint"),
                    json!({"engine":"cso-public-wrapper","m":m,"n":n,"family":family,"inners": inners.iter().map(|c| u64s(c)).collect::<Vec<_>>(),
                        "conflicts": run.conflicts.iter().map(|c| json!({"target": format!("{:?}", c.target), "kept": u(c.kept), "dropped": u(c.dropped)})).collect::<Vec<_>>()}));
            }
        }
    }
    match prop {
        "C12" => {
            if acc {
                rep.nontrivial(&fp);
                let expect = pub_model_output(&jin, &jaddr, n);
                if out != expect {
                    let pos = out.iter().zip(&expect).position(|(a, b)| a != b).unwrap_or(out.len().min(expect.len()));
                    let region = if out.len() != expect.len() { "length" } else if pos < 4 { "address" } else if pos < 12 { "header" } else if pos < 12 + 10 * n * m { "exit-slots" } else { "nullifiers" };
                    rep.violation(&format!("public-wrapper output / {region}"),
                        &format!("accepted public batch (M={m},N={n}) whose output differs from order-preserving forwarding at position {pos} ({region})"),
                        json!({"case": replay(), "observed": u64s(&out), "expected": u64s(&expect)}));
                }
            }
        }
        "C13" => {
            rep.nontrivial(&fp);
            if acc != macc {
                let (ok, _) = if rep.num_violations() < 6 { w.cso.confirm(&run) } else { (acc, None) };
                if ok == acc {
                    rep.violation(&format!("public-wrapper acceptance / circuit={acc} model={macc}"),
                        &format!("public-batch wrapper (M={m},N={n}) {} a vector whose real inners {} metadata", if acc {"accepts"} else {"rejects"}, if macc {"share"} else {"do not share"}),
                        replay());
                } else {
                    rep.inconclusive("CSO and real prover/verifier disagree on a public wrapper-only circuit");
                }
            }
            // acceptance is invariant under changes of slots, nullifiers, block numbers, and all fields of dummy inners
            let mut v2 = jin.clone();
            for inner in v2.iter_mut() {
                let real = inner_is_real(inner);
                for k in 0..inner.len() {
                    let meta = k == 1 || k == 2 || (3..7).contains(&k);
                    if (real && !meta && k != 0) || (!real && !(3..7).contains(&k)) {
                        if rng.gen_bool(0.5) {
                            inner[k] = rand_canon(rng);
                        }
                    }
                }
            }
            let (acc2, _, _) = w.judge(&v2, &rand_d4(rng), &[]);
            rep.eval();
            rep.count("invariance_checks");
            if acc2 != acc {
                rep.violation("public-wrapper acceptance / depends on unchecked fields",
                    &format!("acceptance of a public batch (M={m},N={n}) changed when only slot contents / nullifiers / block numbers / dummy-inner fields changed"),
                    json!({"case": replay(), "changed": v2.iter().map(|c| u64s(c)).collect::<Vec<_>>()}));
            }
        }
        _ => {}
    }
    rep.sample_family(family, json!({"inners": jin.iter().map(|c| u64s(c)).collect::<Vec<_>>(), "accepted": acc, "model": macc}), 1);
}

pub fn run_public(prop: &str, ctx: &Ctx) -> i32 {
    let rule = "case = vector of M private-batch statements (21N+8 felts each) + aggregator address pinned on the free child-PI targets of the public-batch wrapper built by the repository's own constraint builder; \
        non-trivial = accepted vector (C12) / any judged vector (C13); distinct by judged inner values + address";
    let rep = Report::new(prop, "exploration", rule);
    rep.assume("real inner statements are outputs of the private-wrapper model on accepted vectors (attainable); dummy inners carry arbitrary felts");
    let shapes: Vec<(usize, usize)> = ctx.tier.pick(vec![(1, 1), (2, 1), (1, 2), (2, 2), (3, 2), (4, 4)], vec![(1, 1), (2, 1), (1, 2), (2, 2), (3, 2), (4, 4), (8, 2), (5, 3), (16, 1), (1, 16)]);
    let mut ws = vec![];
    for &(m, n) in &shapes {
        match PubW::build(m, n) {
            Ok(w) => ws.push(w),
            Err(e) => {
                rep.inconclusive(&format!("public wrapper-only circuit M={m} N={n} did not build: {e}"));
                return rep.finish(ctx, 1);
            }
        }
    }
    rep.set_extra("circuits", json!(ws.iter().map(|w| json!({"m": w.m, "n": w.n, "rows": w.cso.degree, "generators": w.cso.gen_ids.len()})).collect::<Vec<_>>()));
    for w in ws.iter() {
        let mut rng = ctx.rng("audit");
        let inners = random_inners(&mut rng, w.m, w.n, PubInject::None);
        let free = w.cso.free_inputs(&w.pins(&inners, &rand_d4(&mut rng)), w.cso.num_virtual_targets());
        if !free.is_empty() {
            rep.note(&format!("M={} N={}: {} prover-controlled free inputs unknown to the harness", w.m, w.n, free.len()));
            rep.count("free_inputs_found");
        }
    }
    // small exhaustive domain for M<=2: every (dummy pattern) x (conflict in each field at each real pair)
    let per = ctx.tier.pick(500usize, 150000);
    let injs = [PubInject::None, PubInject::Block, PubInject::Asset, PubInject::Fee];
    for w in ws.iter() {
        let cnt = if w.m * w.n >= 16 { per / 8 + 4 } else { per };
        (0..cnt).into_par_iter().for_each(|i| {
            if ctx.over_budget() {
                return;
            }
            let mut rng = ctx.sub_rng(&format!("pub{}x{}", w.m, w.n), i as u64);
            let inj = injs[i % 4];
            let inners = random_inners(&mut rng, w.m, w.n, inj);
            let addr = match i % 5 {
                0 => [F::ZERO; 4],
                1 => [f(P - 1); 4],
                _ => rand_d4(&mut rng),
            };
            check_public_vector(prop, w, &inners, &addr, &rep, &format!("M{}N{}-{:?}", w.m, w.n, inj), &mut rng);
        });
    }
    // all 2^M dummy patterns for M<=4 with a conflict at every real pair
    for w in ws.iter().filter(|w| w.m <= 4) {
        let mut rng = ctx.rng("patterns");
        for mask in 0..(1u32 << w.m) {
            let key = (rand_d4(&mut rng), f(3), f(25));
            let base: Vec<Vec<F>> = (0..w.m).map(|i| random_inner(&mut rng, w.n, Some(key), mask & (1 << i) == 0)).collect();
            check_public_vector(prop, w, &base, &rand_d4(&mut rng), &rep, "dummy-pattern", &mut rng);
            let reals: Vec<usize> = (0..w.m).filter(|&i| mask & (1 << i) != 0).collect();
            for a in 0..reals.len() {
                for b in (a + 1)..reals.len() {
                    for field in 0..3 {
                        let mut v = base.clone();
                        match field {
                            0 => v[reals[b]][3] += F::ONE,
                            1 => v[reals[b]][1] += F::ONE,
                            _ => v[reals[b]][2] += F::ONE,
                        }
                        let _ = a;
                        check_public_vector(prop, w, &v, &rand_d4(&mut rng), &rep, "dummy-pattern-conflict", &mut rng);
                    }
                }
            }
        }
    }
    {
        let mut rng = ctx.rng("samples");
        let inners = random_inners(&mut rng, 2, 1, PubInject::None);
        rep.sample(json!({"m":2,"n":1,"inners": inners.iter().map(|c| u64s(c)).collect::<Vec<_>>()}));
    }
    if prop == "C12" {
        cross_check_public_full(ctx, &rep, &ws);
        prover_path_public(ctx, &rep);
    }
    rep.finish(ctx, ctx.tier.pick(200, 2000))
}

/// End to end through the repository's own prover: the caller's vector (real inners with caller-supplied all-dummy inners
/// at every position, also BEFORE real ones) goes through PublicBatchProver::commit and prove; the proof's public output
/// must be order-preserving forwarding of the CALLER'S vector followed by padding templates.
fn prover_path_public(ctx: &Ctx, rep: &Report) {
    use qp_wormhole_inputs::BytesDigest;
    use wormhole_aggregator::public_batch::prover::{PublicBatchInputs, PublicBatchProver};
    use zk_circuits_common::circuit::wormhole_public_batch_circuit_config;
    let (m, n) = (3usize, 1usize);
    let fake = FakeLeaf::build(priv_pi_len(n));
    let mut tv = vec![F::ZERO; priv_pi_len(n)];
    tv[0] = f(2 * n as u64);
    let Ok(template) = fake.prove(&tv) else { return };
    let vd = match PubFull::build(&fake.data, m, n) {
        Ok(x) => x.data.verifier_data(),
        Err(_) => return,
    };
    let mut rng = ctx.rng("pubprover");
    let layouts: Vec<Vec<bool>> = ctx.tier.pick(
        vec![vec![false, true], vec![true, false, true], vec![true, true]],
        vec![vec![false, true], vec![true, false, true], vec![true, true], vec![false, false, true], vec![false, true, false], vec![true], vec![true, false]],
    );
    for layout in layouts {
        if ctx.over_budget() {
            break;
        }
        let key = (rand_d4(&mut rng), f(0), f(3));
        let supplied: Vec<Vec<F>> = layout.iter().map(|&real| {
            let mut v = random_inner(&mut rng, n, Some(key), !real);
            for k in 1..4 {
                v[k] = f(u(v[k]) & M32);
            }
            v[0] = f(2 * n as u64);
            v
        }).collect();
        let proofs: Vec<_> = supplied.iter().map(|v| fake.prove(v).unwrap()).collect();
        let addr = rand_d4(&mut rng);
        let Ok(prover) = PublicBatchProver::new(wormhole_public_batch_circuit_config(), fake.data.common.clone(), &fake.data.verifier_only, m, n, template.clone()) else {
            rep.inconclusive("PublicBatchProver::new failed for a valid template");
            return;
        };
        let addr_bytes = BytesDigest::try_from(crate::realleaf::d4_bytes(&addr)).unwrap();
        rep.eval();
        rep.count("prover_path_cases");
        let res = std::panic::catch_unwind(std::panic::AssertUnwindSafe(|| prover.commit(PublicBatchInputs { proofs: proofs.clone(), aggregator_address: addr_bytes }).and_then(|c| c.prove())));
        let case = json!({"layout_real": layout, "supplied": supplied.iter().map(|c| u64s(c)).collect::<Vec<_>>()});
        match res {
            Ok(Ok(proof)) => {
                if vd.verify(proof.clone()).is_err() {
                    rep.violation("public-wrapper output / prover path proof does not verify", "PublicBatchProver produced a proof that does not verify", case);
                    continue;
                }
                let mut padded = supplied.clone();
                while padded.len() < m {
                    padded.push(tv.clone());
                }
                let expect = pub_model_output(&padded, &addr, n);
                rep.nontrivial(&("prover-path", u64s(&proof.public_inputs)));
                if proof.public_inputs != expect {
                    let pos = proof.public_inputs.iter().zip(&expect).position(|(a, b)| a != b).unwrap_or(0);
                    rep.violation("public-wrapper output / prover path does not forward the caller's vector in order",
                        &format!("the public batch proved by PublicBatchProver for the caller's vector (real/dummy layout {layout:?}) differs from order-preserving forwarding of that vector at position {pos}"), case);
                }
            }
            Ok(Err(e)) => rep.violation("public-wrapper output / prover path rejects a compatible vector", &format!("PublicBatchProver rejected a compatible vector with caller-supplied dummy inners: {}", e.to_string().chars().take(160).collect::<String>()), case),
            Err(_) => rep.violation("public-wrapper output / prover path panics", "PublicBatchProver panicked", case),
        }
    }
}

/// the shipped PublicBatchCircuit::new over a fake (21N+8)-PI inner must agree with the wrapper-only form
fn cross_check_public_full(ctx: &Ctx, rep: &Report, ws: &[PubW]) {
    let (m, n) = (2usize, 1usize);
    let Some(w) = ws.iter().find(|w| w.m == m && w.n == n) else { return };
    let fake = FakeLeaf::build(priv_pi_len(n));
    let full = match PubFull::build(&fake.data, m, n) {
        Ok(x) => x,
        Err(e) => {
            rep.inconclusive(&format!("full public-batch circuit over a fake inner did not build: {e}"));
            return;
        }
    };
    let mut rng = ctx.rng("pubfull");
    for i in 0..ctx.tier.pick(4usize, 30) {
        if ctx.over_budget() {
            break;
        }
        let inj = if i % 3 == 2 { PubInject::Fee } else { PubInject::None };
        let mut inners = random_inners(&mut rng, m, n, inj);
        for inner in inners.iter_mut() {
            for k in 1..4 {
                inner[k] = f(u(inner[k]) & M32); // fake circuit range-checks positions 1..3
            }
        }
        let addr = rand_d4(&mut rng);
        let proofs: Vec<_> = inners.iter().map(|x| fake.prove(x).unwrap()).collect();
        let (acc_w, out_w, _) = w.judge(&inners, &addr, &[]);
        let res = std::panic::catch_unwind(std::panic::AssertUnwindSafe(|| full.prove(&proofs, &addr)));
        rep.eval();
        rep.count("full_form_F_cases");
        match res {
            Ok(Ok(proof)) => {
                if !acc_w || proof.public_inputs != out_w {
                    rep.violation("public-wrapper output / full circuit differs from wrapper-only form",
                        "the shipped recursive public-batch circuit (over a fake inner) and the wrapper-only instantiation disagree",
                        json!({"inners": inners.iter().map(|c| u64s(c)).collect::<Vec<_>>(), "full": u64s(&proof.public_inputs), "wrapper_only": u64s(&out_w)}));
                }
                rep.nontrivial(&("F", u64s(&proof.public_inputs)));
            }
            _ => {
                if acc_w {
                    rep.violation("public-wrapper output / full circuit rejects what wrapper-only accepts",
                        "the shipped recursive public-batch circuit cannot prove a vector the wrapper-only instantiation accepts", json!({}));
                }
            }
        }
    }
}

// ---------------------------------------------------------------------------
// C36: two layers
// ---------------------------------------------------------------------------

pub fn run_c36(ctx: &Ctx) -> i32 {
    let rule = "case = random compatible set of attainable leaf statements, split into K private batches with random dummy padding, each pushed through the private wrapper circuit (form W), \
        the K outputs plus padding inners pushed through the public wrapper circuit; oracle on the final public output; non-trivial = chain with >=1 real leaf; distinct by leaves + split";
    let rep = Report::new("C36", "exploration", rule);
    rep.assume("both wrapper-only circuits are the shipped constraint builders (pinned to the recursive circuits by C06/C12 cross-checks); thorough tier adds real recursive chains");
    let shapes: Vec<(usize, usize)> = ctx.tier.pick(vec![(2, 2), (3, 2), (2, 4)], vec![(2, 2), (3, 2), (2, 4), (4, 3), (3, 8)]);
    for &(m, n) in &shapes {
        let pw = match PrivW::build(n) {
            Ok(x) => x,
            Err(e) => {
                rep.inconclusive(&format!("private wrapper N={n} did not build: {e}"));
                return rep.finish(ctx, 1);
            }
        };
        let qw = match PubW::build(m, n) {
            Ok(x) => x,
            Err(e) => {
                rep.inconclusive(&format!("public wrapper M={m},N={n} did not build: {e}"));
                return rep.finish(ctx, 1);
            }
        };
        let chains = ctx.tier.pick(400usize, 12000) / (m * n / 2).max(1);
        (0..chains).into_par_iter().for_each(|ci| {
            if ctx.over_budget() {
                return;
            }
            let mut rng = ctx.sub_rng(&format!("chain{m}x{n}"), ci as u64);
            let asset = f(0);
            let block = if rng.gen_bool(0.3) { zero_alias_digest(&mut rng) } else { rand_d4(&mut rng) };
            let fee = f(rng.gen_range(0..=10000));
            let number = f(rng.gen_range(0..=M32));
            let k_batches = rng.gen_range(1..=m);
            let accts: Vec<D4> = (0..rng.gen_range(1..4)).map(|_| rand_d4(&mut rng)).collect();
            let budget = M32 / (2 * n as u64 * m as u64);
            let mut all_real: Vec<Slot> = vec![];
            let mut expected_dummy_nulls: Vec<[u64; 4]> = vec![];
            let mut inners: Vec<Vec<F>> = vec![];
            let mut ok = true;
            for _ in 0..k_batches {
                let k_real = rng.gen_range(1..=n);
                let mut slots: Vec<Slot> = vec![];
                for _ in 0..k_real {
                    let s = Slot { asset, out1: f(rng.gen_range(0..=budget)), out2: f(rng.gen_range(0..=budget)), fee,
                        nullifier: rand_d4(&mut rng), exit1: accts[rng.gen_range(0..accts.len())], exit2: accts[rng.gen_range(0..accts.len())], block_hash: block, number };
                    all_real.push(s.clone());
                    slots.push(s);
                }
                for _ in k_real..n {
                    slots.push(Slot { asset, out1: F::ZERO, out2: F::ZERO, fee: f(rng.gen_range(0..=10000)), nullifier: rand_d4(&mut rng),
                        exit1: [F::ZERO; 4], exit2: [F::ZERO; 4], block_hash: [F::ZERO; 4], number: F::ZERO });
                }
                slots.shuffle(&mut rng);
                let pre: Vec<D4> = (0..n).map(|_| rand_d4(&mut rng)).collect();
                for (s, p) in slots.iter().zip(&pre) {
                    if !s.is_real() {
                        expected_dummy_nulls.push(canon(&dummy_nullifier(p)));
                    }
                }
                let (acc, out, _) = pw.judge(&pis_of(&slots), &pre, &[]);
                rep.eval();
                if !acc {
                    ok = false;
                    rep.violation("two-layer / compatible private batch rejected", "a compatible private batch inside a chain was rejected by the private wrapper", json!({"children": vec_json(&slots)}));
                    break;
                }
                inners.push(out);
            }
            if !ok {
                return;
            }
            // padding inners: all-dummy private batches (through the circuit as well)
            while inners.len() < m {
                let slots: Vec<Slot> = (0..n).map(|_| Slot { asset, out1: F::ZERO, out2: F::ZERO, fee: F::ZERO, nullifier: rand_d4(&mut rng),
                    exit1: [F::ZERO; 4], exit2: [F::ZERO; 4], block_hash: [F::ZERO; 4], number: F::ZERO }).collect();
                let pre: Vec<D4> = (0..n).map(|_| rand_d4(&mut rng)).collect();
                let (acc, out, _) = pw.judge(&pis_of(&slots), &pre, &[]);
                rep.eval();
                if !acc {
                    rep.violation("two-layer / all-dummy padding batch rejected", "an all-dummy private batch was rejected by the private wrapper", json!({}));
                    return;
                }
                inners.push(out);
            }
            // real inners first then padding, or shuffled: padding position must not matter for the oracle
            if rng.gen_bool(0.5) {
                inners.shuffle(&mut rng);
            }
            let addr = rand_d4(&mut rng);
            let (acc, out, _) = qw.judge(&inners, &addr, &[]);
            rep.eval();
            rep.count("chains");
            if !acc {
                rep.violation("two-layer / compatible public batch rejected", "a public batch of compatible private-batch outputs was rejected", json!({"inners": inners.iter().map(|c| u64s(c)).collect::<Vec<_>>()}));
                return;
            }
            rep.nontrivial(&(m, n, all_real.iter().map(|s| u64s(&s.to_pis())).collect::<Vec<_>>(), k_batches));
            let slots_start = 12;
            let nslots = 2 * n * m;
            let mut total: u128 = 0;
            let mut per_acct: BTreeMap<[u64; 4], u128> = BTreeMap::new();
            for k in 0..nslots {
                let b = slots_start + 5 * k;
                let s = u(out[b]) as u128;
                total += s;
                if s != 0 {
                    *per_acct.entry([u(out[b + 1]), u(out[b + 2]), u(out[b + 3]), u(out[b + 4])]).or_insert(0) += s;
                }
            }
            let want_total: u128 = all_real.iter().map(|s| u(s.out1) as u128 + u(s.out2) as u128).sum();
            let mut want: BTreeMap<[u64; 4], u128> = BTreeMap::new();
            for s in &all_real {
                if s.out1 != F::ZERO {
                    *want.entry(canon(&s.exit1)).or_insert(0) += u(s.out1) as u128;
                }
                if s.out2 != F::ZERO {
                    *want.entry(canon(&s.exit2)).or_insert(0) += u(s.out2) as u128;
                }
            }
            let case = || json!({"m":m,"n":n,"real_leaves": vec_json(&all_real), "inners": inners.iter().map(|c| u64s(c)).collect::<Vec<_>>(), "output": u64s(&out)});
            if total != want_total {
                rep.violation("two-layer / value not conserved", &format!("public output exit slots sum to {total}, real leaves paid {want_total}"), case());
            }
            if per_acct != want {
                rep.violation("two-layer / per-account totals differ", "per-account totals of the public output differ from what the real leaves paid", case());
            }
            let nstart = slots_start + 5 * nslots;
            let mut got_nulls: Vec<[u64; 4]> = (0..n * m).map(|k| { let b = nstart + 4 * k; [u(out[b]), u(out[b + 1]), u(out[b + 2]), u(out[b + 3])] }).filter(|x| *x != [0; 4]).collect();
            got_nulls.sort();
            let mut want_nulls: Vec<[u64; 4]> = all_real.iter().map(|s| canon(&s.nullifier)).chain(expected_dummy_nulls.iter().copied()).collect();
            want_nulls.sort();
            if got_nulls != want_nulls {
                rep.violation("two-layer / nullifier multiset differs", "non-zero nullifiers of the public output are not exactly the real leaves' nullifiers plus the dummy replacements of the real batches", case());
            }
            if ci < 2 {
                rep.sample(json!({"m":m,"n":n,"real_leaves": all_real.len(), "batches": k_batches, "output_total": total as u64}));
            }
        });
    }
    real_chains(ctx, &rep);
    rep.finish(ctx, ctx.tier.pick(50, 200))
}

/// end-to-end through the real recursive circuits (real leaf proofs -> private batch -> public batch)
fn real_chains(ctx: &Ctx, rep: &Report) {
    use crate::leaf::{BaselineOpts, LeafAsg, LeafCircuit};
    let (m, n) = (2usize, 2usize);
    let lc = match LeafCircuit::build() {
        Ok(x) => x,
        Err(e) => {
            rep.inconclusive(&format!("leaf circuit did not build: {e}"));
            return;
        }
    };
    let pf = match PrivFull::build(&lc.cso.data, n) {
        Ok(x) => x,
        Err(e) => {
            rep.inconclusive(&format!("private-batch circuit did not build: {e}"));
            return;
        }
    };
    let qf = match PubFull::build(&pf.data, m, n) {
        Ok(x) => x,
        Err(e) => {
            rep.inconclusive(&format!("public-batch circuit did not build: {e}"));
            return;
        }
    };
    let mut rng = ctx.rng("realchains");
    let prove_leaf = |a: &LeafAsg| {
        let (pre, pins) = lc.pins(a);
        let run = lc.cso.run(&pre, &pins, false);
        lc.cso.confirm(&run)
    };
    for ci in 0..ctx.tier.pick(1usize, 10) {
        if ctx.over_budget() {
            break;
        }
        // one header shared by all real leaves is impossible with independent random trees unless the tree root is
        // shared; use ONE real leaf per chain plus dummies, in a random slot and a random inner position
        let dd = rng.gen_range(0..6usize);
        let mut real = LeafAsg::baseline(&mut rng, &BaselineOpts { depth: dd, dummy: false });
        real.asset = F::ZERO;
        real.recompute(false);
        let mut dummy = LeafAsg::baseline(&mut rng, &BaselineOpts { depth: 0, dummy: true });
        dummy.asset = F::ZERO;
        let (ok1, p_real) = prove_leaf(&real);
        let (ok2, p_dummy) = prove_leaf(&dummy);
        if !ok1 || !ok2 {
            rep.inconclusive("could not produce real leaf proofs for a real chain");
            return;
        }
        let (p_real, p_dummy) = (p_real.unwrap(), p_dummy.unwrap());
        let pre: Vec<D4> = (0..n).map(|_| rand_d4(&mut rng)).collect();
        let batch = if ci % 2 == 0 { vec![p_real.clone(), p_dummy.clone()] } else { vec![p_dummy.clone(), p_real.clone()] };
        let Ok(pb) = pf.prove(&batch, &pre) else {
            rep.violation("two-layer / real private batch unprovable", "a compatible real private batch could not be proved", json!({}));
            return;
        };
        let pre2: Vec<D4> = (0..n).map(|_| rand_d4(&mut rng)).collect();
        let Ok(padding) = pf.prove(&[p_dummy.clone(), p_dummy.clone()], &pre2) else {
            rep.violation("two-layer / all-dummy private batch unprovable", "an all-dummy private batch could not be proved", json!({}));
            return;
        };
        let addr = rand_d4(&mut rng);
        let inners = if ci % 3 == 0 { vec![padding.clone(), pb.clone()] } else { vec![pb.clone(), padding.clone()] };
        let Ok(fin) = qf.prove(&inners, &addr) else {
            rep.violation("two-layer / real public batch unprovable", "a compatible real public batch could not be proved", json!({}));
            return;
        };
        rep.eval();
        rep.count("real_recursive_chains");
        let out = &fin.public_inputs;
        let total: u128 = (0..2 * n * m).map(|k| u(out[12 + 5 * k]) as u128).sum();
        let want = u(real.out1) as u128 + u(real.out2) as u128;
        let nstart = 12 + 10 * n * m;
        let mut got: Vec<[u64; 4]> = (0..n * m).map(|k| { let b = nstart + 4 * k; [u(out[b]), u(out[b + 1]), u(out[b + 2]), u(out[b + 3])] }).filter(|x| *x != [0; 4]).collect();
        got.sort();
        let dummy_idx = if ci % 2 == 0 { 1 } else { 0 };
        let mut wantn = vec![canon(&real.nullifier), canon(&dummy_nullifier(&pre[dummy_idx]))];
        wantn.sort();
        if total != want || got != wantn {
            rep.violation("two-layer / real chain not conserved", &format!("real recursive chain: output total {total} vs {want}; nullifiers {got:?} vs {wantn:?}"), json!({"output": u64s(out)}));
        }
        rep.nontrivial(&("real", u64s(out)));
    }
}
