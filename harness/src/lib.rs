pub mod cso;
pub mod leaf;
pub mod leafcheck;
pub mod util;
pub mod wrap;
pub mod wrapcheck;
