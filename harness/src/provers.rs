//! C14 (commit admits exactly what the circuit can prove) and C15 (padding / shuffle / preimages).

use crate::cso::{f, u};
use crate::leaf::{rand_d4, D4};
use crate::util::{Ctx, Report};
use crate::wrap::*;
use crate::wrapcheck::{random_inners, random_vector, vec_json, Inject, PubInject};
use plonky2::field::types::Field;
use plonky2::iop::target::Target;
use plonky2::plonk::proof::ProofWithPublicInputs;
use qp_wormhole_inputs::BytesDigest;
use rand::seq::SliceRandom;
use rand::Rng;
use rayon::prelude::*;
use serde_json::json;
use std::collections::{BTreeMap, HashSet};
use std::panic::{catch_unwind, AssertUnwindSafe};
use wormhole_aggregator::private_batch::prover::PrivateBatchProver;
use wormhole_aggregator::public_batch::prover::{PublicBatchInputs, PublicBatchProver};
use zk_circuits_common::circuit::{wormhole_private_batch_circuit_config, wormhole_public_batch_circuit_config, C, D, F};

type Proof = ProofWithPublicInputs<F, C, D>;
const M32: u64 = (1 << 32) - 1;

fn zero_slot() -> Slot {
    Slot { asset: F::ZERO, out1: F::ZERO, out2: F::ZERO, fee: F::ZERO, nullifier: [F::ZERO; 4], exit1: [F::ZERO; 4], exit2: [F::ZERO; 4], block_hash: [F::ZERO; 4], number: F::ZERO }
}

fn u64s(v: &[F]) -> Vec<u64> {
    v.iter().map(|x| u(*x)).collect()
}

#[derive(Clone, Copy, Debug, PartialEq, Eq)]
enum PolicyBreak {
    None,
    Empty,
    TooMany,
    Tampered,
    AllDummy,
    PaddingAsset,
}

// ---------------------------------------------------------------------------
// C14
// ---------------------------------------------------------------------------

pub fn run_c14(ctx: &Ctx) -> i32 {
    let rule = "case = vector of child proofs (valid / PI-tampered, attainable statements with every mix of metadata, duplicate nullifiers, caller-supplied dummies, lengths 0..N+1, grouped exit sums 2^32-1 / 2^32 / 2^32+1) fed to the real PrivateBatchProver::commit / PublicBatchProver::commit; \
        commit=Ok cases are proved with the real prover and verified; commit=Err cases with all documented policies satisfied are re-judged by the wrapper model and by the constraint oracle on the wrapper circuit; non-trivial = every committed vector; distinct by (layer, vector contents)";
    let rep = Report::new("C14", "exploration", rule);
    rep.assume("child circuit = fake 21-PI / (21N+8)-PI circuit with free public inputs (the constructors accept any child circuit of the right shape); statements are restricted to ones the real child circuit can attest");
    let fake = FakeLeaf::build(LEAF_PI);
    let template = fake.prove(&zero_slot().to_pis()).unwrap();
    let sizes: Vec<usize> = ctx.tier.pick(vec![2usize, 3], vec![1usize, 2, 3, 4]);
    for &n in &sizes {
        let full = match PrivFull::build(&fake.data, n) {
            Ok(x) => x,
            Err(e) => {
                rep.inconclusive(&format!("private-batch circuit over the fake leaf did not build: {e}"));
                return rep.finish(ctx, 1);
            }
        };
        let vd = full.data.verifier_data();
        let w = PrivW::build(n).unwrap();
        let cases = ctx.tier.pick(54usize, 900) / sizes.len();
        (0..cases).into_par_iter().for_each(|ci| {
            if ctx.over_budget() {
                return;
            }
            let mut rng = ctx.sub_rng(&format!("priv{n}"), ci as u64);
            let brk = [PolicyBreak::None, PolicyBreak::None, PolicyBreak::None, PolicyBreak::Empty, PolicyBreak::TooMany, PolicyBreak::Tampered, PolicyBreak::AllDummy, PolicyBreak::PaddingAsset, PolicyBreak::None][ci % 9];
            let inj = [Inject::None, Inject::SumOverflow, Inject::DupNull, Inject::Block, Inject::Fee, Inject::Asset, Inject::DummyCarriesRealNull, Inject::SumOverflow][ci % 8];
            // supplied vector: k proofs out of an n-slot random vector
            let (mut slots, _) = random_vector(&mut rng, n, inj);
            for s in slots.iter_mut() {
                // attainable: outputs/fee within range even for caller-supplied dummies
                if !s.is_real() {
                    s.out1 = F::ZERO;
                    s.out2 = F::ZERO;
                    s.fee = f(u(s.fee) % 10001);
                    s.number = f(u(s.number) & M32);
                }
            }
            // explicit replay pattern for n >= 3: every slot real and compatible, the FIRST and the LAST proof share a
            // nullifier with differently-numbered proofs between them (non-adjacent replay), or an adjacent pair in the middle
            let replay_pattern = n >= 3 && brk == PolicyBreak::None && ci % 9 == 8;
            if replay_pattern {
                let base = slots.iter().find(|s| s.is_real()).cloned().unwrap_or_else(|| Slot { block_hash: rand_d4(&mut rng), ..slots[0].clone() });
                for s in slots.iter_mut() {
                    *s = Slot { nullifier: rand_d4(&mut rng), out1: f(rng.gen_range(0..1000)), out2: f(rng.gen_range(0..1000)), ..base.clone() };
                }
                let last = slots.len() - 1;
                if (ci / 9) % 3 == 2 {
                    slots[2].nullifier = slots[1].nullifier;
                } else {
                    slots[last].nullifier = slots[0].nullifier;
                }
                rep.count("private:replay_pattern");
            }
            // explicit cross-column overflow pattern: one account is paid from output position 1 of one proof and from
            // position 2 of another; each column stays below 2^32, the grouped total is 2^32-1 / 2^32 / 2^32+1
            let overflow_pattern = n >= 2 && brk == PolicyBreak::None && ci % 9 == 2;
            if overflow_pattern {
                let base = slots.iter().find(|s| s.is_real()).cloned().unwrap_or_else(|| Slot { block_hash: rand_d4(&mut rng), ..slots[0].clone() });
                let target = rand_d4(&mut rng);
                for s in slots.iter_mut() {
                    *s = Slot { nullifier: rand_d4(&mut rng), out1: F::ZERO, out2: F::ZERO, exit1: rand_d4(&mut rng), exit2: rand_d4(&mut rng), ..base.clone() };
                }
                let total: u64 = (1u64 << 32) - 1 + ((ci / 9) % 3) as u64;
                let a = total / 2;
                let last = slots.len() - 1;
                slots[0].exit1 = target;
                slots[0].out1 = f(a);
                slots[last].exit2 = target;
                slots[last].out2 = f(total - a);
                rep.count("private:cross_column_sum_pattern");
            }
            let mut k = match brk {
                _ if replay_pattern || overflow_pattern => n,
                PolicyBreak::Empty => 0,
                PolicyBreak::TooMany => n + 1,
                _ => rng.gen_range(1..=n),
            };
            if brk == PolicyBreak::TooMany {
                let extra = slots[0].clone();
                slots.push(Slot { nullifier: rand_d4(&mut rng), ..extra });
            }
            k = k.min(slots.len());
            let mut supplied: Vec<Slot> = slots[..k].to_vec();
            match brk {
                PolicyBreak::AllDummy => supplied.iter_mut().for_each(|s| { s.block_hash = [F::ZERO; 4]; s.out1 = F::ZERO; s.out2 = F::ZERO; }),
                PolicyBreak::PaddingAsset => {
                    if k == n && n > 1 { supplied.pop(); }
                    supplied.iter_mut().for_each(|s| s.asset = f(7));
                }
                PolicyBreak::None | PolicyBreak::Tampered => {
                    // padding is only compatible with asset 0
                    if supplied.len() < n { supplied.iter_mut().for_each(|s| s.asset = F::ZERO); }
                }
                _ => {}
            }
            let mut proofs: Vec<Proof> = supplied.iter().map(|s| fake.prove(&s.to_pis()).unwrap()).collect();
            if brk == PolicyBreak::Tampered && !proofs.is_empty() {
                let i = rng.gen_range(0..proofs.len());
                let pos = *[1usize, 4, 16, 0].get(rng.gen_range(0..4)).unwrap();
                match (ci / 9) % 3 {
                    0 => proofs[i].public_inputs[pos] += F::ONE,
                    1 => {
                        proofs[i].proof.wires_cap.0[0].elements[0] += F::ONE;
                        rep.count("private:tamper:body");
                    }
                    _ => {
                        // the padding template's statement with a corrupted body among the supplied proofs
                        let mut forged = template.clone();
                        forged.proof.wires_cap.0[0].elements[0] += F::ONE;
                        if proofs.len() >= 2 {
                            let j = proofs.len() - 1;
                            proofs[j] = forged;
                        } else {
                            proofs[i].proof.wires_cap.0[0].elements[0] += F::ONE;
                        }
                        rep.count("private:tamper:forged_template_repeat");
                    }
                }
            }
            // documented policies
            let all_verify = proofs.iter().all(|p| fake.data.verify(p.clone()).is_ok());
            let judged: Vec<Slot> = proofs.iter().map(|p| Slot::from_pis(&p.public_inputs)).collect();
            let has_real = judged.iter().any(|s| s.is_real());
            let padding_needed = judged.len() < n;
            let padding_ok = !padding_needed || judged.iter().all(|s| s.asset == F::ZERO);
            let policies_ok = !judged.is_empty() && judged.len() <= n && all_verify && has_real && padding_ok;
            rep.eval();
            rep.nontrivial(&("priv", n, judged.iter().map(|s| u64s(&s.to_pis())).collect::<Vec<_>>(), format!("{brk:?}")));
            rep.count(&format!("private:break:{brk:?}"));
            let prover = PrivateBatchProver::new(wormhole_private_batch_circuit_config(), fake.data.common.clone(), &fake.data.verifier_only, n, template.clone());
            let Ok(prover) = prover else {
                rep.inconclusive("PrivateBatchProver::new failed for a valid template");
                return;
            };
            let res = catch_unwind(AssertUnwindSafe(|| prover.commit(proofs.clone())));
            let case = || json!({"layer": "private", "n": n, "policy_break": format!("{brk:?}"), "inject": format!("{inj:?}"), "supplied": vec_json(&judged)});
            match res {
                Err(_) => rep.violation("commit / private commit panics", "PrivateBatchProver::commit panicked", case()),
                Ok(Ok(committed)) => {
                    rep.count("private:commit_ok");
                    if !policies_ok {
                        rep.violation(&format!("commit / private accepts a policy-violating vector ({brk:?})"), "PrivateBatchProver::commit accepted a vector that violates a documented admission policy", case());
                        return;
                    }
                    let pr = catch_unwind(AssertUnwindSafe(|| committed.prove()));
                    match pr {
                        Ok(Ok(proof)) if vd.verify(proof.clone()).is_ok() => {
                            rep.count("private:proved_and_verified");
                        }
                        other => {
                            let why = match other {
                                Ok(Ok(_)) => "the proof does not verify".to_string(),
                                Ok(Err(e)) => format!("prove() failed: {}", e.to_string().chars().take(160).collect::<String>()),
                                Err(_) => "prove() panicked".to_string(),
                            };
                            // name the failing class for the known-findings signature
                            let padded: Vec<Slot> = { let mut v = judged.clone(); while v.len() < n { v.push(zero_slot()); } v };
                            let class = match priv_model_accept(&padded) { Err(r) => format!("{r:?}"), Ok(()) => "model-accepts".into() };
                            rep.violation(&format!("private_batch::commit accepts an unprovable batch / {class}"),
                                &format!("PrivateBatchProver::commit accepted a batch that cannot be proved ({class}): {why}"), case());
                        }
                    }
                }
                Ok(Err(e)) => {
                    rep.count("private:commit_err");
                    if policies_ok {
                        // rejected for a reason other than the policies: the padded batch must be unprovable
                        let mut padded = judged.clone();
                        while padded.len() < n { padded.push(zero_slot()); }
                        let pre: Vec<D4> = (0..n).map(|_| rand_d4(&mut rng)).collect();
                        let macc = priv_model_accept(&padded).is_ok();
                        let want_children: Vec<Vec<F>> = padded.iter().map(|s| s.to_pis()).collect();
                        let (cacc0, _, run) = w.judge(&want_children, &pre, &[]);
                        // the oracle judges the assignment it actually evaluated: child inputs tied together by copy
                        // constraints (the asset ids) cannot both take their pinned values, so a satisfied assignment
                        // whose read-back children differ from the supplied ones is a verdict about ANOTHER vector
                        let (got_children, _) = w.read_children(&run);
                        let cacc = cacc0 && got_children == want_children && run.conflicts.is_empty();
                        if cacc0 && !cacc {
                            rep.count("private:oracle_assignment_differs_from_supplied_vector(copy-constrained inputs)");
                        }
                        if macc || cacc {
                            rep.violation("commit / private rejects a provable batch", &format!("PrivateBatchProver::commit rejected a policy-conforming batch that the circuit can prove (model {macc}, circuit {cacc}): {}", e.to_string().chars().take(160).collect::<String>()), case());
                        } else {
                            rep.count("private:rejected_unprovable(confirmed by model+circuit)");
                        }
                    } else {
                        rep.count("private:rejected_by_policy");
                    }
                }
            }
            if ci < 2 {
                rep.sample(case());
            }
        });
    }
    // public layer
    let (m, n) = (2usize, 1usize);
    let fake_inner = FakeLeaf::build(priv_pi_len(n));
    let mut tv = vec![F::ZERO; priv_pi_len(n)];
    tv[0] = f(2 * n as u64);
    let template = fake_inner.prove(&tv).unwrap();
    if let Ok(full) = PubFull::build(&fake_inner.data, m, n) {
        let vd = full.data.verifier_data();
        let cases = ctx.tier.pick(24usize, 400);
        (0..cases).into_par_iter().for_each(|ci| {
            if ctx.over_budget() {
                return;
            }
            let mut rng = ctx.sub_rng("pub", ci as u64);
            let brk = [PolicyBreak::None, PolicyBreak::None, PolicyBreak::Empty, PolicyBreak::TooMany, PolicyBreak::Tampered, PolicyBreak::AllDummy][ci % 6];
            let inj = [PubInject::None, PubInject::Block, PubInject::Asset, PubInject::Fee][ci % 4];
            let mut inners = random_inners(&mut rng, m + 1, n, inj);
            for inner in inners.iter_mut() {
                for k in 1..4 { inner[k] = f(u(inner[k]) & M32); }
                inner[0] = f(2 * n as u64);
            }
            let forged_repeat = brk == PolicyBreak::Tampered && (ci / 6) % 4 >= 2 && m >= 2;
            if forged_repeat {
                // all supplied inners real and compatible, so that nothing but the forged body can be the reason for rejection
                let key = (rand_d4(&mut rng), f(0), f(3));
                for inner in inners.iter_mut() {
                    *inner = crate::wrapcheck::random_inner(&mut rng, n, Some(key), false);
                    for k in 1..4 { inner[k] = f(u(inner[k]) & M32); }
                    inner[0] = f(2 * n as u64);
                }
            }
            let k = match brk { PolicyBreak::Empty => 0, PolicyBreak::TooMany => m + 1, _ if forged_repeat => m, _ => rng.gen_range(1..=m) };
            let mut supplied: Vec<Vec<F>> = inners[..k].to_vec();
            if brk == PolicyBreak::AllDummy { supplied.iter_mut().for_each(|v| v[3..7].copy_from_slice(&[F::ZERO; 4])); }
            let mut proofs: Vec<Proof> = supplied.iter().map(|v| fake_inner.prove(v).unwrap()).collect();
            if brk == PolicyBreak::Tampered && !proofs.is_empty() {
                let i = rng.gen_range(0..proofs.len());
                match (ci / 6) % 4 {
                    0 => proofs[i].public_inputs[8] += F::ONE,
                    1 => {
                        // statement untouched, proof body corrupted
                        proofs[i].proof.wires_cap.0[0].elements[0] += F::ONE;
                        rep.count("public:tamper:body");
                    }
                    2 | 3 if proofs.len() >= 2 => {
                        // a LATER slot repeats the statement of an earlier, valid proof but carries a corrupted body
                        let j = proofs.len() - 1;
                        let mut forged = proofs[0].clone();
                        forged.proof.wires_cap.0[0].elements[0] += F::ONE;
                        proofs[j] = forged;
                        rep.count("public:tamper:forged_repeat_of_a_valid_statement");
                    }
                    _ => {
                        // the padding template's statement with a corrupted body, after the real proofs
                        let mut forged = template.clone();
                        forged.proof.wires_cap.0[0].elements[0] += F::ONE;
                        if proofs.len() < m {
                            proofs.push(template.clone());
                        }
                        let j = proofs.len() - 1;
                        if j >= 1 {
                            proofs[j] = forged;
                        } else {
                            proofs[0].proof.wires_cap.0[0].elements[0] += F::ONE;
                        }
                        rep.count("public:tamper:forged_template_repeat");
                    }
                }
            }
            let all_verify = proofs.iter().all(|p| fake_inner.data.verify(p.clone()).is_ok());
            let judged: Vec<Vec<F>> = proofs.iter().map(|p| p.public_inputs.clone()).collect();
            let has_real = judged.iter().any(|v| inner_is_real(v));
            let policies_ok = !judged.is_empty() && judged.len() <= m && all_verify && has_real;
            rep.eval();
            rep.nontrivial(&("pub", judged.iter().map(|v| u64s(v)).collect::<Vec<_>>(), format!("{brk:?}")));
            rep.count(&format!("public:break:{brk:?}"));
            let Ok(prover) = PublicBatchProver::new(wormhole_public_batch_circuit_config(), fake_inner.data.common.clone(), &fake_inner.data.verifier_only, m, n, template.clone()) else {
                rep.inconclusive("PublicBatchProver::new failed for a valid template");
                return;
            };
            let addr = rand_d4(&mut rng);
            let addr_bytes = BytesDigest::try_from(crate::realleaf::d4_bytes(&addr)).unwrap();
            let res = catch_unwind(AssertUnwindSafe(|| prover.commit(PublicBatchInputs { proofs: proofs.clone(), aggregator_address: addr_bytes })));
            let case = || json!({"layer": "public", "m": m, "n": n, "policy_break": format!("{brk:?}"), "supplied": judged.iter().map(|v| u64s(v)).collect::<Vec<_>>()});
            match res {
                Err(_) => rep.violation("commit / public commit panics", "PublicBatchProver::commit panicked", case()),
                Ok(Ok(committed)) => {
                    rep.count("public:commit_ok");
                    if !policies_ok {
                        rep.violation(&format!("commit / public accepts a policy-violating vector ({brk:?})"), "PublicBatchProver::commit accepted a vector that violates a documented admission policy", case());
                        return;
                    }
                    match catch_unwind(AssertUnwindSafe(|| committed.prove())) {
                        Ok(Ok(proof)) if vd.verify(proof.clone()).is_ok() => {
                            rep.count("public:proved_and_verified");
                            // the committed address is exposed
                            if proof.public_inputs[..4] != addr {
                                rep.violation("commit / public proof exposes another address", "the proved public batch does not expose the committed aggregator address", case());
                            }
                        }
                        _ => rep.violation("public_batch::commit accepts an unprovable batch", "PublicBatchProver::commit accepted a batch that cannot be proved", case()),
                    }
                }
                Ok(Err(e)) => {
                    rep.count("public:commit_err");
                    if brk == PolicyBreak::Tampered {
                        rep.note(&format!("public tampered case {ci} (style {}) rejected with: {}", (ci / 6) % 4, e.to_string().chars().take(140).collect::<String>()));
                    }
                    if policies_ok {
                        let mut padded = judged.clone();
                        while padded.len() < m { padded.push(tv.clone()); }
                        if pub_model_accept(&padded) {
                            rep.violation("commit / public rejects a provable batch", &format!("PublicBatchProver::commit rejected a policy-conforming provable batch: {}", e.to_string().chars().take(160).collect::<String>()), case());
                        } else {
                            rep.count("public:rejected_unprovable(confirmed by model)");
                        }
                    }
                }
            }
        });
    } else {
        rep.inconclusive("public-batch circuit over the fake inner did not build");
    }
    rep.finish(ctx, ctx.tier.pick(20, 100))
}

// ---------------------------------------------------------------------------
// C15
// ---------------------------------------------------------------------------

fn chi2_ok(counts: &[u64], total: u64) -> (f64, bool) {
    // Wilson-Hilferty normal approximation of the chi-square tail; reject only at alpha = 1e-9 (z > 6.0)
    let k = counts.len() as f64;
    if k < 2.0 || total == 0 {
        return (0.0, true);
    }
    let e = total as f64 / k;
    let chi: f64 = counts.iter().map(|c| (*c as f64 - e).powi(2) / e).sum();
    let df = k - 1.0;
    let z = ((chi / df).powf(1.0 / 3.0) - (1.0 - 2.0 / (9.0 * df))) / (2.0 / (9.0 * df)).sqrt();
    (chi, z < 6.0)
}

pub fn run_c15(ctx: &Ctx) -> i32 {
    let rule = "case = one commit of k distinguishable real child proofs into an N-slot private-batch prover (re-armed through hook H3, so one prover commits thousands of times); the committed partial witness is read back: per-slot child public inputs and the N dummy preimages; \
        oracles: multiset = supplied + (N-k) templates (exact), arrangement counts chi-square-uniform over all N!/(N-k)! arrangements with every arrangement seen, preimages never repeat and their top bytes are chi-square-uniform; public prover: supplied proofs in order then templates (exact); \
        non-trivial = every commit; distinct by (N, k, arrangement, preimages)";
    let rep = Report::new("C15", "exploration", rule);
    rep.assume("uniformity/independence are statistical statements: rejected only at alpha = 1e-9 (no false alarms at the run sizes used), so only gross non-uniformity (missing shuffle, fixed position, reused preimage) is detected");
    let fake = FakeLeaf::build(LEAF_PI);
    let template = fake.prove(&zero_slot().to_pis()).unwrap();
    let combos: Vec<(usize, usize)> = ctx.tier.pick(vec![(2, 1), (2, 2), (3, 2), (4, 1), (4, 3)], vec![(2, 1), (2, 2), (3, 1), (3, 2), (3, 3), (4, 1), (4, 2), (4, 3), (4, 4)]);
    let commits_per = ctx.tier.pick(1200usize, 60_000);
    combos.par_iter().for_each(|&(n, k)| {
        let mut rng = ctx.sub_rng("c15", (n * 10 + k) as u64);
        let Ok(mut prover) = PrivateBatchProver::new(wormhole_private_batch_circuit_config(), fake.data.common.clone(), &fake.data.verifier_only, n, template.clone()) else {
            rep.inconclusive("PrivateBatchProver::new failed");
            return;
        };
        let Some(targets) = prover.verif_targets() else {
            rep.inconclusive("hook H3: targets not available before commit");
            return;
        };
        // k distinguishable real proofs (distinct nullifiers), compatible
        let block = rand_d4(&mut rng);
        let mut supplied: Vec<Slot> = (0..k).map(|i| Slot { asset: F::ZERO, out1: f(10 + i as u64), out2: f(1), fee: f(5), nullifier: rand_d4(&mut rng), exit1: rand_d4(&mut rng), exit2: rand_d4(&mut rng), block_hash: block, number: f(9) }).collect();
        // in some shapes the last supplied proof is a CALLER-SUPPLIED dummy-sentinel leaf (zero block hash and outputs, its own
        // nullifier field and fee, so it is distinguishable from the padding template): commit must treat it like any supplied proof
        if k >= 2 && (n + k) % 2 == 1 {
            let last = supplied.len() - 1;
            supplied[last] = Slot { asset: F::ZERO, out1: F::ZERO, out2: F::ZERO, fee: f(7), nullifier: rand_d4(&mut rng), exit1: [F::ZERO; 4], exit2: [F::ZERO; 4], block_hash: [F::ZERO; 4], number: f(0) };
            rep.count("private:shapes_with_a_caller_supplied_dummy_leaf");
        }
        let proofs: Vec<Proof> = supplied.iter().map(|s| fake.prove(&s.to_pis()).unwrap()).collect();
        let tpl_pis = zero_slot().to_pis();
        let mut arrangement_counts: BTreeMap<Vec<i32>, u64> = BTreeMap::new();
        let mut position_counts = vec![vec![0u64; n]; k];
        let mut preimages_seen: HashSet<[u64; 4]> = HashSet::new();
        let mut top_byte = vec![0u64; 256];
        let mut total = 0u64;
        for it in 0..commits_per {
            if it % 64 == 0 && ctx.over_budget() {
                break;
            }
            let mut order: Vec<usize> = (0..k).collect();
            if it % 2 == 1 {
                order.shuffle(&mut rng); // the caller's order must not matter either
            }
            let input: Vec<Proof> = order.iter().map(|&i| proofs[i].clone()).collect();
            let res = catch_unwind(AssertUnwindSafe(|| prover.commit(input)));
            let committed = match res {
                Ok(Ok(p)) => p,
                Ok(Err(e)) => {
                    rep.violation("padding / commit rejects a compatible batch", &format!("commit rejected k={k} compatible proofs for N={n}: {e}"), json!({"n": n, "k": k}));
                    return;
                }
                Err(_) => {
                    rep.violation("padding / commit panics", "commit panicked", json!({"n": n, "k": k}));
                    return;
                }
            };
            prover = committed;
            rep.eval();
            total += 1;
            let pw = prover.verif_partial_witness();
            let get = |t: &Target| pw.target_values.get(t).copied();
            // per slot: which supplied proof (by PIs) or the template
            let mut arr: Vec<i32> = vec![];
            let mut bad = None;
            for slot in 0..n {
                let pis: Option<Vec<F>> = targets.leaf_proofs[slot].public_inputs.iter().map(|t| get(t)).collect();
                let Some(pis) = pis else {
                    bad = Some(format!("slot {slot} has unset public-input targets"));
                    break;
                };
                if let Some(i) = supplied.iter().position(|s| s.to_pis() == pis) {
                    arr.push(i as i32);
                    // the whole proof must be the supplied one, not only its public inputs: compare one cap element
                    let cap_t = targets.leaf_proofs[slot].proof.wires_cap.0[0].elements[0];
                    let want = proofs[i].proof.wires_cap.0[0].elements[0];
                    if get(&cap_t) != Some(want) {
                        bad = Some(format!("slot {slot} carries the public inputs of supplied proof {i} but another proof body"));
                    }
                } else if pis == tpl_pis {
                    arr.push(-1);
                    let cap_t = targets.leaf_proofs[slot].proof.wires_cap.0[0].elements[0];
                    if get(&cap_t) != Some(template.proof.wires_cap.0[0].elements[0]) {
                        bad = Some(format!("slot {slot} carries template public inputs but not the validated template proof"));
                    }
                } else {
                    bad = Some(format!("slot {slot} holds a proof that is neither supplied nor the template"));
                }
            }
            if bad.is_none() {
                let mut multiset: Vec<i32> = arr.clone();
                multiset.sort();
                let mut want: Vec<i32> = (0..k as i32).collect();
                want.extend(std::iter::repeat(-1).take(n - k));
                want.sort();
                if multiset != want {
                    bad = Some(format!("committed multiset {arr:?} is not the {k} supplied proofs plus {} templates", n - k));
                }
            }
            // preimages
            let mut pre_this: Vec<[u64; 4]> = vec![];
            for slot in 0..n {
                let v: Option<Vec<F>> = targets.dummy_nullifier_pre_images[slot].iter().map(|t| get(t)).collect();
                match v {
                    Some(v) => pre_this.push([u(v[0]), u(v[1]), u(v[2]), u(v[3])]),
                    None => bad = Some(format!("slot {slot} has no dummy preimage")),
                }
            }
            if let Some(b) = bad {
                rep.violation("padding / committed witness is not supplied + templates", &b, json!({"n": n, "k": k, "arrangement": arr}));
                return;
            }
            for p in &pre_this {
                if !preimages_seen.insert(*p) {
                    rep.violation("padding / dummy preimage repeated", &format!("a dummy-nullifier preimage was used twice (N={n}, commit {it})"), json!({"n": n, "k": k, "preimage": p}));
                    return;
                }
                for limb in p {
                    top_byte[(limb >> 56) as usize] += 1;
                }
            }
            for (slot, a) in arr.iter().enumerate() {
                if *a >= 0 {
                    position_counts[*a as usize][slot] += 1;
                }
            }
            *arrangement_counts.entry(arr).or_insert(0) += 1;
            rep.nontrivial(&(n, k, it));
            prover.verif_rearm(targets.clone());
        }
        if total < 200 {
            return;
        }
        // number of arrangements of k distinguishable proofs in n slots = n!/(n-k)!
        let narr: u64 = ((n - k + 1)..=n).map(|x| x as u64).product();
        let mut counts: Vec<u64> = arrangement_counts.values().copied().collect();
        let seen = counts.len() as u64;
        while (counts.len() as u64) < narr {
            counts.push(0);
        }
        let (chi, ok) = chi2_ok(&counts, total);
        rep.set_extra(&format!("arrangements_N{n}_k{k}"), json!({"commits": total, "possible": narr, "seen": seen, "chi_square": chi, "counts": counts}));
        if total >= 40 * narr && seen < narr {
            rep.violation("shuffle / arrangement never produced", &format!("N={n}, k={k}: only {seen} of {narr} slot arrangements were ever produced in {total} commits"), json!({"n": n, "k": k, "counts": counts}));
        } else if total >= 40 * narr && !ok {
            rep.violation("shuffle / not uniform", &format!("N={n}, k={k}: arrangement counts are not uniform (chi-square {chi:.1} over {narr} arrangements, {total} commits)"), json!({"n": n, "k": k, "counts": counts}));
        }
        for (i, pc) in position_counts.iter().enumerate() {
            let (chi, ok) = chi2_ok(pc, pc.iter().sum());
            if total >= 400 && !ok {
                rep.violation("shuffle / position bias", &format!("N={n}, k={k}: supplied proof {i} is not uniformly placed (chi-square {chi:.1})"), json!({"n": n, "k": k, "position_counts": pc}));
            }
        }
        // limbs are uniform below p, so top bytes 0..=0xfe are (almost) uniform and 0xff is rarer; test 0..0xff excluding 0xff
        let tb: Vec<u64> = top_byte[..255].to_vec();
        let (chi, ok) = chi2_ok(&tb, tb.iter().sum());
        if !ok {
            rep.violation("padding / preimage distribution", &format!("top bytes of dummy preimages are not uniform (chi-square {chi:.1})"), json!({"n": n, "k": k}));
        }
        rep.sample(json!({"n": n, "k": k, "commits": total, "arrangements_seen": seen, "of": narr}));
    });
    // public prover: order preserved, then templates (exact)
    let (m, n) = (3usize, 1usize);
    let fake_inner = FakeLeaf::build(priv_pi_len(n));
    let mut tv = vec![F::ZERO; priv_pi_len(n)];
    tv[0] = f(2 * n as u64);
    let template_pub = fake_inner.prove(&tv).unwrap();
    if let Ok(mut prover) = PublicBatchProver::new(wormhole_public_batch_circuit_config(), fake_inner.data.common.clone(), &fake_inner.data.verifier_only, m, n, template_pub.clone()) {
        let targets = prover.verif_targets().unwrap();
        let mut rng = ctx.rng("c15pub");
        for it in 0..ctx.tier.pick(150usize, 3000) {
            let k = rng.gen_range(1..=m);
            let key = (rand_d4(&mut rng), f(0), f(3));
            // caller-supplied all-dummy inners (zero block hash) may sit anywhere, also BEFORE real ones: the committed
            // order must still be the supplied order; at least one inner stays real (commit refuses all-dummy batches)
            let real_at = rng.gen_range(0..k);
            let interleave = it % 3 != 0;
            let supplied: Vec<Vec<F>> = (0..k).map(|i| {
                let dummy = interleave && i != real_at && rng.gen_bool(0.5);
                let mut v = crate::wrapcheck::random_inner(&mut rng, n, Some(key), dummy);
                for j in 1..4 { v[j] = f(u(v[j]) & M32); }
                if dummy {
                    // distinguishable from the padding template and from other supplied dummies
                    v[7] = f(rng.gen_range(1..=M32));
                    rep.count("public:caller_supplied_dummy_inner");
                }
                v
            }).collect();
            let proofs: Vec<Proof> = supplied.iter().map(|v| fake_inner.prove(v).unwrap()).collect();
            let addr = rand_d4(&mut rng);
            let res = prover.commit(PublicBatchInputs { proofs, aggregator_address: BytesDigest::try_from(crate::realleaf::d4_bytes(&addr)).unwrap() });
            let Ok(p) = res else {
                rep.violation("padding / public commit rejects a compatible batch", "public commit rejected compatible proofs", json!({"k": k}));
                break;
            };
            prover = p;
            rep.eval();
            rep.nontrivial(&("pub", it));
            let pw = prover.verif_partial_witness();
            for slot in 0..m {
                let pis: Option<Vec<F>> = targets.private_batch_proofs[slot].public_inputs.iter().map(|t| pw.target_values.get(t).copied()).collect();
                let want = if slot < k { &supplied[slot] } else { &tv };
                if pis.as_ref() != Some(want) {
                    rep.violation("padding / public batch order", &format!("public-batch slot {slot} does not hold {}", if slot < k {"the supplied proof in the given order"} else {"the dummy template"}), json!({"k": k, "slot": slot}));
                }
            }
            let a: Option<Vec<F>> = targets.aggregator_address.iter().map(|t| pw.target_values.get(t).copied()).collect();
            if a != Some(addr.to_vec()) {
                rep.violation("padding / public batch address", "the committed aggregator address differs from the supplied one", json!({}));
            }
            prover.verif_rearm(targets.clone());
        }
    }
    rep.finish(ctx, ctx.tier.pick(500, 10000))
}

/// replay helper for private-batch vectors recorded in replay files (`case.supplied` or `case.case.children`)
pub fn judge_private_replay(path: &str) -> i32 {
    let txt = match std::fs::read_to_string(path) {
        Ok(t) => t,
        Err(e) => {
            eprintln!("cannot read {path}: {e}");
            return 2;
        }
    };
    let v: serde_json::Value = serde_json::from_str(&txt).unwrap_or(serde_json::Value::Null);
    let arr = v["case"]["supplied"].as_array().or_else(|| v["case"]["case"]["children"].as_array()).cloned().unwrap_or_default();
    let n = v["case"]["n"].as_u64().or_else(|| v["case"]["case"]["n"].as_u64()).unwrap_or(arr.len() as u64) as usize;
    let mut slots: Vec<Slot> = arr.iter().map(|c| Slot::from_pis(&c.as_array().unwrap().iter().map(|x| f(x.as_u64().unwrap())).collect::<Vec<_>>())).collect();
    while slots.len() < n {
        slots.push(zero_slot());
    }
    let w = PrivW::build(n).unwrap();
    println!("n={n} model={:?}", priv_model_accept(&slots));
    let mut rng = rand::thread_rng();
    for round in 0..5 {
        let pre: Vec<D4> = (0..n).map(|_| rand_d4(&mut rng)).collect();
        let (acc, out, run) = w.judge(&slots.iter().map(|s| s.to_pis()).collect::<Vec<_>>(), &pre, &[]);
        let ev = w.cso.eval(&run);
        let (got, _) = w.read_children(&run);
        let same = got == slots.iter().map(|s| s.to_pis()).collect::<Vec<_>>();
        println!("round {round}: constraints satisfied={acc} failing_rows={} pin_conflicts={} evaluated_vector_is_the_supplied_one={same} => accepted={} header={:?}", ev.failing_rows(), run.conflicts.len(), acc && same && run.conflicts.is_empty(), out.iter().take(8).map(|x| u(*x)).collect::<Vec<_>>());
    }
    0
}
