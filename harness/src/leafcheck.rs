//! C01–C04: adversarial assignments against the real leaf circuit, judged by the
//! CSO and compared with the independent leaf model.

use crate::cso::{f, u, Run};
use crate::leaf::*;
use crate::util::{Ctx, Report};
use plonky2::field::types::Field;
use plonky2::iop::target::Target;
use rand::Rng;
use rayon::prelude::*;
use serde_json::json;
use std::collections::BTreeSet;
use std::sync::atomic::{AtomicU64, Ordering};
use zk_circuits_common::circuit::F;

pub struct Case {
    pub family: String,
    pub asg: LeafAsg,
}

fn case(family: &str, asg: LeafAsg) -> Case {
    Case { family: family.to_string(), asg }
}

const OOR: [u64; 8] = [1 << 32, (1 << 32) + 1, (1 << 33) - 1, 1 << 48, 1 << 63, P - (1 << 32), P - 2, P - 1];

fn set_field(a: &mut LeafAsg, name: &str, v: F) {
    match name {
        "asset" => a.asset = v,
        "input" => a.input = v,
        "out1" => a.out1 = v,
        "out2" => a.out2 = v,
        "fee" => a.fee = v,
        "tc_hi" => {
            a.leaf_tc[0] = v;
            a.null_tc[0] = v
        }
        "tc_lo" => {
            a.leaf_tc[1] = v;
            a.null_tc[1] = v
        }
        "block_number" => {
            a.block_number = v;
            a.hdr_number = v
        }
        _ => unreachable!(),
    }
}

/// C01 families
pub fn families_c01(rng: &mut impl Rng, depth: usize, dummy: bool) -> Vec<Case> {
    let mut out = vec![];
    let base = LeafAsg::baseline(rng, &BaselineOpts { depth, dummy });
    out.push(case(if dummy { "honest-dummy" } else { "honest-real" }, base.clone()));
    // R1: independent fields out of range, everything downstream recomputed
    for name in ["asset", "tc_hi", "tc_lo", "block_number"] {
        for v in OOR {
            let mut a = base.clone();
            set_field(&mut a, name, f(v));
            a.recompute(dummy);
            out.push(case(&format!("R1-{name}"), a));
        }
    }
    // R1: input out of range with fee = 10000 and zero outputs (rhs = lhs = 0)
    for v in OOR {
        let mut a = base.clone();
        a.input = f(v);
        a.fee = f(10000);
        a.out1 = F::ZERO;
        a.out2 = F::ZERO;
        a.recompute(dummy);
        out.push(case("R1-input", a));
    }
    // R1: input out of range chosen so the field product stays small: in = p - k with fee -> rhs = -k*(10000-fee)
    // (needs lhs to wrap as well) -- covered by R1w below.
    if !dummy {
        // R1w: wrapped outputs out1 = p-k, out2 = k+delta (and symmetric)
        for k in [1u64, 5, 1000, (1 << 31), (1 << 32) - 2] {
            for delta in [0u64, 1] {
                for which in 0..2 {
                    let mut a = base.clone();
                    let small = k + delta;
                    if small >= (1 << 32) {
                        continue;
                    }
                    // make sure rhs >= delta*10000
                    a.fee = F::ZERO;
                    a.input = f(delta.max(1));
                    if which == 0 {
                        a.out1 = f(P - k);
                        a.out2 = f(small);
                    } else {
                        a.out2 = f(P - k);
                        a.out1 = f(small);
                    }
                    a.recompute(false);
                    out.push(case("R1w-wrapped-output", a));
                }
            }
        }
        // R1w: wrapped input: in = p-k so in*(10000-fee) wraps to a small value
        for k in [1u64, 2, 10000] {
            let mut a = base.clone();
            a.fee = f(9999); // factor 1
            a.input = f(P - k);
            // rhs = -k ; lhs must be -k - small: impossible with small outputs; use out1 = p-k-? also out of range
            a.out1 = F::ZERO;
            a.out2 = F::ZERO;
            a.recompute(false);
            out.push(case("R1w-wrapped-input", a));
        }
        // both outputs out of range but sum in range
        for k in [1u64, 77] {
            let mut a = base.clone();
            a.fee = F::ZERO;
            a.input = f(100);
            a.out1 = f(P - k);
            a.out2 = f(k + 100);
            a.recompute(false);
            out.push(case("R1w-wrapped-output", a));
        }
    }
    // R2: fee above 10000 with input = outputs = 0 (only the complement check can reject)
    for fee in [10001u64, 10002, 16383, 16384, (1 << 14) + 10000, (1 << 32) - 1] {
        let mut a = base.clone();
        a.fee = f(fee);
        a.input = F::ZERO;
        a.out1 = F::ZERO;
        a.out2 = F::ZERO;
        a.recompute(dummy);
        out.push(case("R2-fee-cap", a));
    }
    if !dummy {
        // R3: inequality violated by d
        for _ in 0..6 {
            let mut a = base.clone();
            let inp: u64 = rng.gen_range(1..=u32::MAX as u64);
            let fee: u64 = rng.gen_range(0..=10000);
            let max_out = (inp as u128 * (10000 - fee) as u128 / 10000) as u64;
            let d: u64 = *[1u64, 2, 9999, 1 << 20].get(rng.gen_range(0..4)).unwrap();
            let total = max_out + d;
            if total > u32::MAX as u64 * 2 {
                continue;
            }
            let o1 = total.min(u32::MAX as u64);
            let o2 = total - o1;
            a.input = f(inp);
            a.fee = f(fee);
            a.out1 = f(o1);
            a.out2 = f(o2);
            a.recompute(false);
            out.push(case("R3-inequality", a));
        }
        // R3: rhs - lhs = -1 exactly
        {
            let mut a = base.clone();
            a.fee = f(9999);
            a.input = f(9999);
            a.out1 = f(1);
            a.out2 = F::ZERO;
            a.recompute(false);
            out.push(case("R3-minus-one", a));
        }
        // R3: rhs - lhs = -(2^48 - 1) or so: lhs large, rhs zero
        {
            let mut a = base.clone();
            a.fee = f(10000);
            a.input = f(5);
            a.out1 = f((1 << 32) - 1);
            a.out2 = f((1 << 32) - 1);
            a.recompute(false);
            out.push(case("R3-large-negative", a));
        }
        // R3 positive boundary: exact equality and max values (must be accepted)
        {
            let mut a = base.clone();
            a.fee = F::ZERO;
            a.input = f(u32::MAX as u64);
            a.out1 = f(u32::MAX as u64);
            a.out2 = F::ZERO;
            a.recompute(false);
            out.push(case("honest-boundary-max", a));
            let mut a = base.clone();
            a.fee = f(10000);
            a.input = f(u32::MAX as u64);
            a.out1 = F::ZERO;
            a.out2 = F::ZERO;
            a.recompute(false);
            out.push(case("honest-boundary-fee10000", a));
        }
    }
    out
}

pub fn families_c02(rng: &mut impl Rng, depth: usize) -> Vec<Case> {
    let mut out = vec![];
    let base = LeafAsg::baseline(rng, &BaselineOpts { depth, dummy: false });
    out.push(case("honest-real", base.clone()));
    // split secret: nullifier over s1, address/tree over s2
    {
        let mut a = base.clone();
        let s2 = rand_d4(rng);
        a.ua_secret = s2;
        a.ua_account = address_of(&s2);
        a.leaf_to = a.ua_account;
        a.recompute(false); // nullifier from null_secret (s1), tree over WA(s2)
        out.push(case("split-secret", a));
        // one-limb split
        let mut a = base.clone();
        a.ua_secret[rng.gen_range(0..4)] += F::ONE;
        a.ua_account = address_of(&a.ua_secret);
        a.leaf_to = a.ua_account;
        a.recompute(false);
        out.push(case("split-secret-one-limb", a));
    }
    // split transfer count
    for limb in 0..2 {
        let mut a = base.clone();
        a.null_tc[limb] = f(rng.gen_range(0..=u32::MAX as u64));
        if a.null_tc == a.leaf_tc {
            a.null_tc[limb] += F::ONE;
        }
        a.recompute(false); // nullifier over null_tc, tree over leaf_tc
        out.push(case("split-count", a));
    }
    // alias splits: the two sites differ limb-wise but agree under a lossy recombination
    // (hi*2^32+lo mod p, limb sums, limb permutations): a by-value equality instead of limb-wise copy constraints accepts them
    {
        let w = f(1u64 << 32);
        let variants: Vec<[F; 2]> = vec![
            [base.leaf_tc[0] - F::ONE, base.leaf_tc[1] + w],
            [base.leaf_tc[0] + F::ONE, base.leaf_tc[1] - w],
            [base.leaf_tc[0] + f(7), base.leaf_tc[1] - f(7) * w],
            [base.leaf_tc[1], base.leaf_tc[0]],
            [base.leaf_tc[0] + F::ONE, base.leaf_tc[1] - F::ONE],
        ];
        for v in variants {
            if v == base.leaf_tc {
                continue;
            }
            let mut a = base.clone();
            a.null_tc = v;
            a.recompute(false); // nullifier over the aliased limbs, tree over the real ones
            out.push(case("split-count-alias", a));
        }
        // c + p spelled with 32-bit limbs: [2^32-1, c+1] for a small count c
        let mut b2 = base.clone();
        let c = rng.gen_range(0..(1u64 << 32) - 2);
        b2.leaf_tc = [F::ZERO, f(c)];
        b2.null_tc = b2.leaf_tc;
        b2.recompute(false);
        let mut a = b2.clone();
        a.null_tc = [f((1u64 << 32) - 1), f(c + 1)];
        a.recompute(false);
        out.push(case("split-count-alias-p", a));
        for _ in 0..3 {
            let mut a = base.clone();
            a.ua_secret = crate::wrapcheck::equal_alias_digest(rng, &base.null_secret);
            a.ua_account = address_of(&a.ua_secret);
            a.leaf_to = a.ua_account;
            a.recompute(false);
            out.push(case("split-secret-alias", a));
            let mut a = base.clone();
            a.leaf_to = crate::wrapcheck::equal_alias_digest(rng, &base.ua_account);
            a.recompute(false);
            out.push(case("split-account-alias", a));
        }
    }
    // split account: address = WA(s) but tree leaf pays another account
    {
        let mut a = base.clone();
        a.leaf_to = rand_d4(rng);
        a.recompute(false);
        out.push(case("split-account", a));
        let mut a = base.clone();
        a.leaf_to[rng.gen_range(0..4)] += F::ONE;
        a.recompute(false);
        out.push(case("split-account-one-limb", a));
    }
    // free nullifier on a non-dummy statement
    for k in 0..4 {
        let mut a = base.clone();
        a.nullifier = match k {
            0 => rand_d4(rng),
            1 => [F::ZERO; 4],
            2 => {
                let tc = [a.null_tc[0], a.null_tc[1] + F::ONE];
                nullifier_of(&a.null_secret, &tc)
            }
            _ => {
                // inner hash only
                let mut pre = enc4(b"~nullif~");
                pre.extend_from_slice(&a.null_secret);
                pre.extend_from_slice(&a.null_tc);
                h(&pre)
            }
        };
        out.push(case("free-nullifier", a));
    }
    // one limb of the nullifier off
    for i in 0..4 {
        let mut a = base.clone();
        a.nullifier[i] += F::ONE;
        out.push(case("nullifier-limb", a));
    }
    // wrong address derivations (tree is built over the wrong address, so only the WA binding can reject)
    for k in 0..3 {
        let mut a = base.clone();
        let acct = match k {
            0 => {
                let mut pre = enc4(b"wormhole");
                pre.extend_from_slice(&a.ua_secret);
                h(&pre) // inner hash only
            }
            1 => {
                let mut pre = enc4(b"wormhol3");
                pre.extend_from_slice(&a.ua_secret);
                h(&h(&pre))
            }
            _ => rand_d4(rng),
        };
        a.ua_account = acct;
        a.leaf_to = acct;
        a.recompute(false);
        out.push(case("wrong-address", a));
    }
    out
}

pub fn families_c03(rng: &mut impl Rng, depth: usize) -> Vec<Case> {
    let mut out = vec![];
    let base = LeafAsg::baseline(rng, &BaselineOpts { depth, dummy: false });
    out.push(case("honest-real", base.clone()));
    // block hash unrelated to the header
    {
        let mut a = base.clone();
        a.block_hash = rand_d4(rng);
        out.push(case("free-block-hash", a));
        for i in 0..4 {
            let mut a = base.clone();
            a.block_hash[i] += F::ONE;
            out.push(case("block-hash-limb", a));
        }
    }
    // header field replaced after hashing
    for k in 0..6 {
        let mut a = base.clone();
        match k {
            0 => a.parent[rng.gen_range(0..4)] += F::ONE,
            1 => a.state_root[rng.gen_range(0..4)] += F::ONE,
            2 => a.extr_root[rng.gen_range(0..4)] += F::ONE,
            3 => a.digest[rng.gen_range(0..28)] += F::ONE,
            4 => {
                // number differs inside the preimage only (public number keeps the hashed value)
                a.hdr_number += F::ONE;
            }
            _ => {
                // public number differs, preimage keeps the hashed one; pins put the statement first
                a.block_number += F::ONE;
            }
        }
        out.push(case("header-field-after-hash", a));
    }
    // header hashed in another field order
    for k in 0..3 {
        let mut a = base.clone();
        let mut pre: Vec<F> = vec![];
        match k {
            0 => {
                pre.push(a.hdr_number);
                pre.extend_from_slice(&a.parent);
                pre.extend_from_slice(&a.state_root);
                pre.extend_from_slice(&a.extr_root);
                pre.extend_from_slice(&a.hdr_root);
                pre.extend_from_slice(&a.digest);
            }
            1 => {
                pre.extend_from_slice(&a.parent);
                pre.push(a.hdr_number);
                pre.extend_from_slice(&a.extr_root);
                pre.extend_from_slice(&a.state_root);
                pre.extend_from_slice(&a.hdr_root);
                pre.extend_from_slice(&a.digest);
            }
            _ => {
                pre.extend_from_slice(&a.parent);
                pre.push(a.hdr_number);
                pre.extend_from_slice(&a.state_root);
                pre.extend_from_slice(&a.extr_root);
                pre.extend_from_slice(&a.digest);
                pre.extend_from_slice(&a.hdr_root);
            }
        }
        a.block_hash = h(&pre);
        out.push(case("header-field-order", a));
    }
    // tree root unrelated to header: header commits to R', merkle proves R
    {
        let mut a = base.clone();
        a.hdr_root = rand_d4(rng);
        a.block_hash = header_hash(&a.parent, a.hdr_number, &a.state_root, &a.extr_root, &a.hdr_root, &a.digest);
        out.push(case("root-split-header", a));
        // merkle root target differs from the computed root, header commits to the merkle root target
        let mut a = base.clone();
        a.root = rand_d4(rng);
        a.hdr_root = a.root;
        a.block_hash = header_hash(&a.parent, a.hdr_number, &a.state_root, &a.extr_root, &a.hdr_root, &a.digest);
        out.push(case("root-not-computed", a));
        // header commits to computed root, merkle root target is garbage
        let mut a = base.clone();
        a.root = rand_d4(rng);
        out.push(case("root-split-merkle", a));
    }
    // positions out of range at active and inactive levels
    for pv in [4u64, 5, 7, 1 << 32, P - 1] {
        if depth > 0 {
            let mut a = base.clone();
            let l = rng.gen_range(0..depth);
            a.positions[l] = f(pv);
            a.recompute(false); // node recomputed with the circuit's select semantics
            out.push(case("position-active", a));
        }
        if depth < MAX_DEPTH {
            let mut a = base.clone();
            let l = rng.gen_range(depth..MAX_DEPTH);
            a.positions[l] = f(pv);
            out.push(case("position-inactive", a));
        }
    }
    // depth out of range
    for dv in [17u64, 18, 31, 32, 33, 1 << 32, P - 1] {
        let mut a = base.clone();
        a.depth = f(dv);
        a.recompute(false); // all 16 levels active
        out.push(case("depth-above-16", a));
    }
    // sibling / leaf corruption
    if depth > 0 {
        for _ in 0..3 {
            let mut a = base.clone();
            let l = rng.gen_range(0..depth);
            a.siblings[l][rng.gen_range(0..3)][rng.gen_range(0..4)] += F::ONE;
            out.push(case("sibling-corrupt", a));
        }
        // wrong position (in range) at an active level
        let mut a = base.clone();
        let l = rng.gen_range(0..depth);
        a.positions[l] = f((u(a.positions[l]) + 1) % 4);
        out.push(case("position-wrong", a));
    }
    {
        // the tree leaf holds another amount than the private input
        let mut a = base.clone();
        let real_root = a.root;
        a.input = f((u(a.input) + 1) % (1 << 32));
        a.root = real_root;
        out.push(case("leaf-amount-not-in-tree", a));
        let mut a = base.clone();
        a.asset = f((u(a.asset) + 1) % (1 << 32));
        out.push(case("leaf-asset-not-in-tree", a));
    }
    // depth shorter / longer than the real path but consistent (positive: prefix path is a valid path)
    if depth > 1 {
        let mut a = base.clone();
        a.depth = f((depth - 1) as u64);
        a.recompute(false);
        out.push(case("honest-shorter-depth", a));
    }
    out
}

pub fn families_c04(rng: &mut impl Rng, depth: usize) -> Vec<Case> {
    let mut out = vec![];
    let real = LeafAsg::baseline(rng, &BaselineOpts { depth, dummy: false });
    let dummy = LeafAsg::baseline(rng, &BaselineOpts { depth, dummy: true });
    out.push(case("honest-real", real.clone()));
    out.push(case("honest-dummy", dummy.clone()));
    // dummy with garbage everywhere that is allowed to be garbage
    {
        let mut a = dummy.clone();
        a.nullifier = rand_d4(rng);
        a.root = rand_d4(rng);
        a.hdr_root = rand_d4(rng);
        a.parent = rand_d4(rng);
        out.push(case("honest-dummy-garbage", a));
    }
    let breakers = ["none", "nullifier", "header", "root"];
    // the 8 sentinel combinations x bindings broken individually
    for bh_zero in [false, true] {
        for o1_zero in [false, true] {
            for o2_zero in [false, true] {
                for bname in breakers.iter() {
                    let mut a = real.clone();
                    a.fee = F::ZERO;
                    a.input = f(1000);
                    a.out1 = if o1_zero { F::ZERO } else { f(400) };
                    a.out2 = if o2_zero { F::ZERO } else { f(500) };
                    a.recompute(false);
                    match *bname {
                        "nullifier" => a.nullifier = rand_d4(rng),
                        "header" => a.parent = rand_d4(rng),
                        "root" => {
                            a.root = rand_d4(rng);
                            a.hdr_root = a.root;
                        }
                        _ => {}
                    }
                    if *bname == "root" {
                        a.block_hash = header_hash(&a.parent, a.hdr_number, &a.state_root, &a.extr_root, &a.hdr_root, &a.digest);
                    }
                    if bh_zero {
                        a.block_hash = [F::ZERO; 4];
                    }
                    out.push(case(
                        &format!("sentinel-bh{}-o1{}-o2{}-break-{}", bh_zero as u8, o1_zero as u8, o2_zero as u8, bname),
                        a,
                    ));
                }
            }
        }
    }
    // single non-zero limb of the block hash with zero outputs and broken bindings
    for limb in 0..4 {
        for v in [1u64, 1 << 32, P - 1] {
            let mut a = dummy.clone();
            a.block_hash[limb] = f(v);
            a.nullifier = rand_d4(rng);
            out.push(case("sentinel-one-limb", a));
        }
    }
    // single non-zero output with zero block hash and broken bindings
    for which in 0..2 {
        for v in [1u64, (1 << 32) - 1] {
            let mut a = dummy.clone();
            a.fee = F::ZERO;
            a.input = f(v);
            if which == 0 {
                a.out1 = f(v)
            } else {
                a.out2 = f(v)
            }
            a.recompute(true);
            a.nullifier = rand_d4(rng);
            out.push(case("sentinel-one-output", a));
        }
    }
    // sentinel aliases: non-zero block hash / outputs that vanish under a lossy fold (sums, weighted sums,
    // packed limbs, products) of the six sentinel values, with a binding broken
    for k in 0..24 {
        let mut a = real.clone();
        a.fee = F::ZERO;
        let neg = |x: u64| -> u64 { (P - (x % P)) % P };
        let (bh, o1, o2): ([u64; 4], u64, u64) = match k % 8 {
            0 => ([1, P - 1, 0, 0], 0, 0),
            1 => ([P - 2, 0, 0, 0], 1, 1),
            2 => ([0, 0, P - 90, 0], 90, 0),
            3 => {
                let (x, y, z) = (rng.gen_range(1..P), rng.gen_range(1..P), rng.gen_range(1..P));
                let s = ((x as u128 + y as u128 + z as u128) % P as u128) as u64;
                ([x, y, z, neg(s)], 0, 0)
            }
            4 => {
                let (x, y, z) = (rng.gen_range(1..P), rng.gen_range(1..P), rng.gen_range(1..P));
                let (p1, p2) = (rng.gen_range(1..1000u64), rng.gen_range(1..1000u64));
                let s = ((x as u128 + y as u128 + z as u128 + p1 as u128 + p2 as u128) % P as u128) as u64;
                ([x, y, z, neg(s)], p1, p2)
            }
            5 => ([0, rng.gen_range(1..P), rng.gen_range(1..P), rng.gen_range(1..P)], 0, 0), // product of limbs is zero
            6 => ([rng.gen_range(1..P), rng.gen_range(1..P), rng.gen_range(1..P), rng.gen_range(1..P)], 0, 7), // product with outputs zero
            _ => {
                // a - b + c - d = 0
                let (x, y, z) = (rng.gen_range(1..1u64 << 62), rng.gen_range(1..1u64 << 62), rng.gen_range(1..1u64 << 62));
                ([x, y, z, ((x as u128 + P as u128 - y as u128 + z as u128) % P as u128) as u64], 0, 0)
            }
        };
        a.input = f(2000);
        a.out1 = f(o1);
        a.out2 = f(o2);
        a.recompute(false);
        a.block_hash = [f(bh[0]), f(bh[1]), f(bh[2]), f(bh[3])];
        match k % 3 {
            0 => a.nullifier = rand_d4(rng),
            1 => a.parent = rand_d4(rng),
            _ => {
                a.root = rand_d4(rng);
                a.hdr_root = a.root;
            }
        }
        out.push(case("sentinel-alias", a));
    }
    // flag pinned by the prover
    for v in [0u64, 1, 2, P - 1] {
        let mut a = real.clone();
        a.nullifier = rand_d4(rng);
        a.flag_pin = Some(f(v));
        out.push(case("flag-pin-real-broken", a));
        let mut a = real.clone();
        a.root = rand_d4(rng);
        a.flag_pin = Some(f(v));
        out.push(case("flag-pin-real-broken-root", a));
        let mut a = dummy.clone();
        a.flag_pin = Some(f(v));
        out.push(case("flag-pin-dummy", a));
    }
    // range / fee on dummy statements
    for c in families_c01(rng, depth, true) {
        if c.family.starts_with("honest") {
            continue;
        }
        out.push(Case { family: format!("dummy-{}", c.family), asg: c.asg });
    }
    out
}

pub struct Judged<'a> {
    pub accepted: bool,
    pub rejecting_gates: Vec<String>,
    pub back: LeafAsg,
    pub violated: Vec<Clause>,
    pub run: Run<'a>,
}

pub fn judge<'a>(lc: &'a LeafCircuit, a: &LeafAsg, extra_pre: &[(Target, F)]) -> Judged<'a> {
    let (mut pre, pins) = lc.pins(a);
    pre.extend_from_slice(extra_pre);
    // hint overrides first, then the flag pin, then inputs
    pre.rotate_right(extra_pre.len());
    let run = lc.cso.run(&pre, &pins, false);
    let ev = lc.cso.eval(&run);
    let back = lc.read_back(&run);
    let violated = model_check(&back);
    let mut gates: BTreeSet<String> = BTreeSet::new();
    for (_, g) in ev.failing.iter() {
        gates.insert(lc.cso.gate_name(*g).to_string());
    }
    Judged {
        accepted: ev.accepted(),
        rejecting_gates: gates.into_iter().collect(),
        back,
        violated,
        run,
    }
}

fn owns(prop: &str, family: &str, c: &Clause, back: &LeafAsg) -> bool {
    match prop {
        "C04" => {
            // C04 owns: any binding clause violated although the statement is not the full sentinel,
            // and range/fee clauses on statements carrying the full sentinel.
            if c.is_binding() {
                !model_is_dummy(back)
            } else {
                model_is_dummy(back) || family.starts_with("dummy-")
            }
        }
        p => c.owner() == p,
    }
}

fn fingerprint(family: &str, j: &Judged) -> (String, Vec<u64>, Vec<Clause>) {
    let mut v: Vec<u64> = j.back.public_inputs().iter().map(|x| u(*x)).collect();
    v.push(u(j.back.depth));
    v.push(u(j.back.input));
    v.extend(j.back.positions.iter().map(|x| u(*x)));
    (family.to_string(), v, j.violated.clone())
}

/// judge one case, compare with the model, confirm surprising outcomes with the real prover/verifier
pub fn process_case(prop: &str, lc: &LeafCircuit, c: &Case, rep: &Report, confirm_ctr: &AtomicU64) {
    let j = judge(lc, &c.asg, &[]);
    rep.eval();
    rep.count(&format!("family:{}", c.family));
    let honest_family = c.family.starts_with("honest");
    if j.accepted {
        rep.count("accepted");
        if j.violated.is_empty() {
            if honest_family {
                rep.count("honest_accepted");
                rep.nontrivial(&fingerprint(&c.family, &j));
                // positive control: the real verifier must accept too (sampled)
                if confirm_ctr.fetch_add(1, Ordering::Relaxed) % 16 == 0 {
                    let (ok, _) = lc.cso.confirm(&j.run);
                    rep.count("confirmed_real_prover");
                    if !ok {
                        rep.inconclusive("CSO accepted an honest assignment that the real prover/verifier rejected (oracle disagreement)");
                    }
                }
            } else {
                rep.count("attack_neutralised_to_valid_statement");
            }
        } else {
            // accepted although the model says the judged statement is forbidden
            let (ok, _) = lc.cso.confirm(&j.run);
            rep.count("confirmed_real_prover");
            if !ok {
                rep.inconclusive("CSO accepted a forbidden assignment that the real verifier rejected (oracle disagreement)");
                return;
            }
            let owned: Vec<&Clause> = j.violated.iter().filter(|cl| owns(prop, &c.family, cl, &j.back)).collect();
            if owned.is_empty() {
                rep.count("accepted_forbidden_owned_by_other_property");
                rep.note(&format!(
                    "family {} accepted with clauses {:?} violated (owned by another leaf property; that property's check reports it)",
                    c.family, j.violated
                ));
            } else {
                rep.violation(
                    &format!("leaf-circuit accepts / {:?}", owned[0]),
                    &format!(
                        "leaf circuit accepted (CSO + real prover/verifier) a statement violating {:?} (attack family {})",
                        owned, c.family
                    ),
                    json!({"engine":"cso-leaf","family":c.family,"intended":c.asg.to_json(),"judged":j.back.to_json(),
                           "violated": format!("{:?}", j.violated)}),
                );
            }
        }
    } else {
        rep.count("rejected");
        for g in &j.rejecting_gates {
            rep.count(&format!("rejected_by:{g}"));
        }
        if honest_family {
            // completeness of the circuit on model-valid statements is C05's business; here it is
            // a sanity check of the harness itself
            if j.violated.is_empty() && j.run.conflicts.is_empty() {
                rep.inconclusive(&format!("honest baseline of family {} was rejected by the CSO (harness/model out of sync with circuit)", c.family));
            }
        } else if !j.violated.is_empty() {
            rep.nontrivial(&fingerprint(&c.family, &j));
            rep.sample_family(&c.family, json!({"pi": j.back.public_inputs().iter().map(|x| u(*x)).collect::<Vec<_>>(),
                "violated": format!("{:?}", j.violated), "rejected_by": j.rejecting_gates, "conflicts": j.run.conflicts.len()}), 1);
            // sampled agreement check: the real verifier must reject as well
            if confirm_ctr.fetch_add(1, Ordering::Relaxed) % 64 == 0 {
                let (ok, _) = lc.cso.confirm(&j.run);
                rep.count("confirmed_real_prover");
                if ok {
                    rep.inconclusive("CSO rejected an assignment that the real prover/verifier accepted (oracle disagreement)");
                }
            }
        } else {
            rep.count("rejected_model_ok_after_conflicts");
        }
    }
}

/// E2: hint-override sweep on one statement. Every generator output is
/// overridden (pinned before the inputs), everything downstream regenerated.
pub fn override_sweep(
    prop: &str,
    lc: &LeafCircuit,
    c: &Case,
    rep: &Report,
    stride: usize,
    offset: usize,
) {
    let (pre0, pins) = lc.pins(&c.asg);
    let honest = lc.cso.run(&pre0, &pins, true);
    let honest_vals = honest.pw.values.clone();
    let mask = lc.cso.random_reps(&honest);
    let ngen = honest.gen_outputs.len();
    let gen_ids = &lc.cso.gen_ids;
    let idxs: Vec<usize> = (0..ngen).filter(|g| g % stride == offset % stride).collect();
    idxs.par_iter().for_each(|&gi| {
        let outs = &honest.gen_outputs[gi];
        if outs.is_empty() {
            return;
        }
        // single-target overrides
        let mut sets: Vec<Vec<(Target, F)>> = vec![];
        for (k, (t, v)) in outs.iter().enumerate() {
            if outs.len() > 8 && k % 5 != (gi % 5) && k != outs.len() - 1 {
                continue; // long limb vectors: sample limbs
            }
            for nv in [*v + F::ONE, *v - F::ONE, F::ZERO, F::ONE, F::ONE - *v, f(P - 1), f(1 << 32)] {
                if nv != *v {
                    sets.push(vec![(*t, nv)]);
                }
            }
        }
        // semantic: equality generator (equal, inv) pair
        if gen_ids[gi].starts_with("EqualityGenerator") && outs.len() >= 2 {
            let (t0, v0) = outs[0];
            let (t1, _) = outs[1];
            sets.push(vec![(t0, F::ONE - v0), (t1, F::ZERO)]);
            sets.push(vec![(t0, F::ONE - v0), (t1, F::ONE)]);
        }
        // semantic: two limbs swapped / carry moved between adjacent limbs of a split
        if gen_ids[gi].starts_with("BaseSplitGenerator") && outs.len() >= 2 {
            let k = gi % (outs.len() - 1);
            let (ta, va) = outs[k];
            let (tb, vb) = outs[k + 1];
            sets.push(vec![(ta, va + f(2)), (tb, vb - F::ONE)]);
            sets.push(vec![(ta, vb), (tb, va)]);
        }
        for set in sets {
            let mut pre = set.clone();
            pre.extend_from_slice(&pre0);
            let run = lc.cso.run(&pre, &pins, false);
            let ev = lc.cso.eval(&run);
            rep.eval();
            rep.count("override_tried");
            let effective = lc.cso.differs(&run.pw.values, &honest_vals, &mask);
            if !effective {
                rep.count("override_ineffective");
                continue;
            }
            rep.count(&format!("override_gen:{}", gen_ids[gi]));
            if !ev.accepted() {
                rep.count("override_rejected");
                rep.nontrivial(&("ovr", gi, set.iter().map(|(t, v)| (lc.cso.target_index(*t), u(*v))).collect::<Vec<_>>(), c.family.clone()));
                continue;
            }
            rep.count("override_accepted");
            let back = lc.read_back(&run);
            let violated = model_check(&back);
            if violated.is_empty() {
                rep.count("override_accepted_benign");
                rep.nontrivial(&("ovr-ok", gi, c.family.clone()));
                continue;
            }
            let (ok, _) = lc.cso.confirm(&run);
            if !ok {
                rep.inconclusive("CSO accepted an overridden forbidden assignment that the real verifier rejected");
                continue;
            }
            let owned: Vec<&Clause> = violated.iter().filter(|cl| owns(prop, &c.family, cl, &back)).collect();
            if owned.is_empty() {
                rep.count("accepted_forbidden_owned_by_other_property");
            } else {
                rep.violation(
                    &format!("leaf-circuit accepts under hint override / {:?}", owned[0]),
                    &format!("hint override on generator {} ({}) makes the leaf circuit accept a statement violating {:?} (family {})",
                        gi, gen_ids[gi], owned, c.family),
                    json!({"engine":"cso-leaf-override","family":c.family,"generator":gi,"generator_id":gen_ids[gi],
                        "override": set.iter().map(|(t,v)| json!([format!("{:?}",t), u(*v)])).collect::<Vec<_>>(),
                        "intended": c.asg.to_json(), "judged": back.to_json(), "violated": format!("{:?}", violated)}),
                );
            }
        }
    });
}

pub fn run(prop: &str, ctx: &Ctx) -> i32 {
    let rule = "assignment = full per-site input assignment (+ optional hint overrides) to the leaf circuit built from /repo; \
        non-trivial = (a) attack assignment whose judged (read-back) statement violates >=1 clause of the independent leaf model, or \
        (b) model-valid honest baseline accepted by CSO, or (c) an effective hint override; distinct by (family, judged public inputs, depth, positions, violated clauses)";
    let rep = Report::new(prop, "exploration", rule);
    rep.assume("plonky2 gate constraint evaluators, Poseidon2 native hash and FRI are the trusted base");
    rep.assume("adversary = structured search (statement attacks, single/pair hint overrides), not exhaustive");
    let lc = match LeafCircuit::build() {
        Ok(l) => l,
        Err(e) => {
            rep.inconclusive(&format!("leaf circuit did not build: {e}"));
            return rep.finish(ctx, 1);
        }
    };
    rep.set_extra(
        "circuit",
        json!({"rows": lc.cso.degree, "generators": lc.cso.gen_ids.len(), "gates": lc.cso.gate_ids}),
    );
    // free-input audit
    {
        let mut rng = ctx.rng("audit");
        let a = LeafAsg::baseline(&mut rng, &BaselineOpts { depth: 3, dummy: false });
        let (_, pins) = lc.pins(&a);
        let free = lc.cso.free_inputs(&pins, lc.cso.num_virtual_targets());
        rep.set_extra("free_inputs_found", json!(free.len()));
        if !free.is_empty() {
            rep.note(&format!("{} prover-controlled free inputs not known to the harness: {:?}", free.len(), &free[..free.len().min(8)]));
        }
    }
    let rounds = ctx.tier.pick(12usize, 400);
    let confirm_ctr = AtomicU64::new(0);
    let depths_all: Vec<usize> = (0..=16).collect();
    (0..rounds).into_par_iter().for_each(|r| {
        if ctx.over_budget() {
            return;
        }
        let mut rng = ctx.sub_rng("families", r as u64);
        let depth = if r < 4 { [0, 1, 3, 16][r] } else { depths_all[rng.gen_range(0..depths_all.len())] };
        let cases = match prop {
            "C01" => {
                let mut v = families_c01(&mut rng, depth, false);
                v.extend(families_c01(&mut rng, depth, true));
                v
            }
            "C02" => families_c02(&mut rng, depth),
            "C03" => families_c03(&mut rng, depth),
            _ => families_c04(&mut rng, depth),
        };
        for c in &cases {
            process_case(prop, &lc, c, &rep, &confirm_ctr);
        }
        if r == 0 {
            for c in cases.iter().take(3) {
                rep.sample(json!({"family": c.family, "assignment": c.asg.to_json()}));
            }
        }
    });
    // E2 sweeps: honest baselines + selected rejected attack statements
    let mut rng = ctx.rng("sweep");
    let mut sweep_cases: Vec<Case> = vec![];
    let pool = match prop {
        "C01" => {
            let mut v = families_c01(&mut rng, 2, false);
            v.extend(families_c01(&mut rng, 2, true));
            v
        }
        "C02" => families_c02(&mut rng, 2),
        "C03" => families_c03(&mut rng, 2),
        _ => families_c04(&mut rng, 2),
    };
    let nsweep = ctx.tier.pick(6usize, 60);
    let mut seen_fam = BTreeSet::new();
    for c in pool {
        let key = c.family.split('-').take(2).collect::<Vec<_>>().join("-");
        if seen_fam.insert(key) && sweep_cases.len() < nsweep {
            sweep_cases.push(c);
        }
    }
    let stride = ctx.tier.pick(4usize, 1);
    for (i, c) in sweep_cases.iter().enumerate() {
        if ctx.over_budget() {
            rep.note("soft wall-clock cap reached during override sweeps; remaining sweeps skipped");
            break;
        }
        override_sweep(prop, &lc, c, &rep, stride, i + ctx.seed as usize);
        rep.count("override_sweeps");
    }
    rep.finish(ctx, ctx.tier.pick(100, 1000))
}
