//! C11: recursive verification accepts only the canonical child circuit.
//! Alternative child circuits ("programs") with valid proofs are written into the proof targets of the real
//! outer circuits; the outer constraint system (CSO) and the real outer prover/verifier must reject them.

use crate::cso::{pins_from_partial, u, Cso};
use crate::leaf::{rand_d4, BaselineOpts, LeafAsg, LeafCircuit, D4};
use crate::util::{Ctx, Report};
use crate::wrap::*;
use plonky2::field::types::Field;
use plonky2::iop::target::Target;
use plonky2::iop::witness::{PartialWitness, WitnessWrite};
use plonky2::plonk::circuit_builder::CircuitBuilder;
use plonky2::plonk::circuit_data::{CircuitConfig, CircuitData};
use plonky2::plonk::proof::ProofWithPublicInputs;
use rand::Rng;
use serde_json::json;
use std::panic::{catch_unwind, AssertUnwindSafe};
use wormhole_aggregator::private_batch::circuit::circuit_logic::PrivateBatchCircuit;
use wormhole_aggregator::public_batch::circuit::circuit_logic::PublicBatchCircuit;
use wormhole_circuit::block_header::BlockHeader;
use wormhole_circuit::circuit::circuit_logic::CircuitTargets;
use wormhole_circuit::nullifier::Nullifier;
use wormhole_circuit::substrate_account::DualExitAccount;
use wormhole_circuit::unspendable_account::UnspendableAccount;
use wormhole_circuit::zk_merkle_proof::ZkMerkleProofData;
use zk_circuits_common::circuit::{wormhole_leaf_circuit_config, wormhole_private_batch_circuit_config, wormhole_public_batch_circuit_config, CircuitFragment, C, D, F};

type Proof = ProofWithPublicInputs<F, C, D>;

#[derive(Clone, Copy, Debug, PartialEq, Eq)]
pub enum Variant {
    Faithful,
    ExtraCopyConstraint,
    NullifierBindingRemoved,
    RootBindingRemoved,
    ExtraConstantGate,
    ZkConfig,
}

/// the leaf circuit re-assembled from its public fragments, optionally with one constraint removed or added
pub fn leaf_variant(v: Variant) -> Option<LeafCircuit> {
    let mut cfg = wormhole_leaf_circuit_config();
    if v == Variant::ZkConfig {
        cfg = CircuitConfig::standard_recursion_zk_config();
    }
    let mut b = CircuitBuilder::<F, D>::new(cfg);
    let t = CircuitTargets::new(&mut b);
    UnspendableAccount::circuit(&t.unspendable_account, &mut b);
    ZkMerkleProofData::circuit(&t.zk_merkle_proof, &mut b);
    DualExitAccount::circuit(&t.exit_accounts, &mut b);
    BlockHeader::circuit_without_hash_binding(&t.block_header, &mut b);
    // connect_shared_targets, re-implemented from the public pieces
    b.connect_hashes(t.nullifier.secret, t.unspendable_account.secret);
    for (&x, &y) in t.nullifier.transfer_count.iter().zip(&t.zk_merkle_proof.leaf.transfer_count) {
        b.connect(x, y);
    }
    for (&x, &y) in t.unspendable_account.account_id.elements.iter().zip(&t.zk_merkle_proof.leaf.to_account.elements) {
        b.connect(x, y);
    }
    let zero = b.zero();
    let one = b.one();
    let bh = &t.block_header.block_hash.elements;
    let z0 = b.is_equal(bh[0], zero);
    let z1 = b.is_equal(bh[1], zero);
    let z2 = b.is_equal(bh[2], zero);
    let z3 = b.is_equal(bh[3], zero);
    let z01 = b.and(z0, z1);
    let z23 = b.and(z2, z3);
    let bhz = b.and(z01, z23);
    let leaf = &t.zk_merkle_proof.leaf;
    let o1 = b.is_equal(leaf.output_amount_1, zero);
    let o2 = b.is_equal(leaf.output_amount_2, zero);
    let oz = b.and(o1, o2);
    let is_dummy = b.and(bhz, oz);
    let is_not_dummy = b.sub(one, is_dummy.target);
    b.connect(t.zk_merkle_proof.is_not_dummy.target, is_not_dummy);
    if v != Variant::NullifierBindingRemoved {
        Nullifier::conditional_hash_binding(&t.nullifier, &mut b, is_not_dummy);
    }
    BlockHeader::conditional_block_hash_binding(&t.block_header, &mut b, is_not_dummy);
    if v != Variant::RootBindingRemoved {
        for i in 0..4 {
            let diff = b.sub(t.block_header.header.zk_tree_root[i], t.zk_merkle_proof.root_hash.elements[i]);
            let r = b.mul(diff, is_not_dummy);
            b.connect(r, zero);
        }
    }
    match v {
        Variant::ExtraCopyConstraint => {
            // one extra copy constraint between two otherwise free public inputs: same gates, different sigma polynomials
            b.connect(t.exit_accounts.exit_account_1.address.elements[0], t.exit_accounts.exit_account_2.address.elements[0]);
        }
        Variant::ExtraConstantGate => {
            let c = b.constant(crate::cso::f(0xC0FFEE));
            let s = b.add(c, t.exit_accounts.exit_account_1.address.elements[1]);
            b.connect(s, t.exit_accounts.exit_account_2.address.elements[1]);
        }
        _ => {}
    }
    let data = catch_unwind(AssertUnwindSafe(|| b.build::<C>())).ok()?;
    Some(LeafCircuit { cso: Cso::new(data).ok()?, t })
}

fn prove_on(lc: &LeafCircuit, v: Variant, rng: &mut impl Rng) -> Option<Proof> {
    prove_on_kind(lc, v, rng, false)
}

/// `dummy`: a dummy-sentinel statement (zero block hash and outputs), which the wrappers exempt from every cross-slot check
fn prove_on_kind(lc: &LeafCircuit, v: Variant, rng: &mut impl Rng, dummy: bool) -> Option<Proof> {
    let depth = rng.gen_range(0..4usize);
    let mut a = LeafAsg::baseline(rng, &BaselineOpts { depth, dummy });
    a.asset = F::ZERO;
    a.recompute(dummy);
    match v {
        Variant::ExtraCopyConstraint => a.exit2[0] = a.exit1[0],
        Variant::ExtraConstantGate => a.exit2[1] = a.exit1[1] + crate::cso::f(0xC0FFEE),
        Variant::NullifierBindingRemoved => a.nullifier = rand_d4(rng), // a statement the canonical circuit cannot attest
        Variant::RootBindingRemoved => {
            a.hdr_root = rand_d4(rng);
            if !dummy {
                a.block_hash = crate::leaf::header_hash(&a.parent, a.hdr_number, &a.state_root, &a.extr_root, &a.hdr_root, &a.digest);
            }
        }
        _ => {}
    }
    let (pre, pins) = lc.pins(&a);
    let run = lc.cso.run(&pre, &pins, false);
    let (ok, p) = lc.cso.confirm(&run);
    if ok { p } else { None }
}

struct Outer {
    cso: Cso,
    proof_targets: Vec<plonky2::plonk::proof::ProofWithPublicInputsTarget<D>>,
    extra: Vec<(Target, F)>,
    label: String,
}

fn judge_foreign(rep: &Report, outer: &Outer, proof: &Proof, child_label: &str, expect_accept: bool, foreign_key: Option<Vec<F>>) {
    let slots: Vec<&Proof> = outer.proof_targets.iter().map(|_| proof).collect();
    judge_foreign_slots(rep, outer, &slots, child_label, expect_accept, foreign_key)
}

/// one proof per proof target of the outer circuit
fn judge_foreign_slots(rep: &Report, outer: &Outer, slots: &[&Proof], child_label: &str, expect_accept: bool, foreign_key: Option<Vec<F>>) {
    let proof = slots[0];
    rep.eval();
    rep.count(&format!("child:{child_label}"));
    let mut pw = PartialWitness::new();
    let fill = catch_unwind(AssertUnwindSafe(|| {
        let mut ok = true;
        for (t, p) in outer.proof_targets.iter().zip(slots.iter()) {
            if pw.set_proof_with_pis_target(t, *p).is_err() {
                ok = false;
            }
        }
        ok
    }));
    let case = json!({"outer": outer.label, "child": child_label, "child_public_inputs": slots.iter().map(|p| p.public_inputs.iter().map(|x| u(*x)).collect::<Vec<_>>()).collect::<Vec<_>>()});
    match fill {
        Ok(true) => {}
        _ => {
            rep.count("rejected_by_shape(cannot be written into the proof targets)");
            rep.nontrivial(&(outer.label.clone(), child_label.to_string(), "shape"));
            if expect_accept {
                rep.inconclusive("the canonical child's own proof does not fit the outer proof targets");
            }
            return;
        }
    }
    let mut pins = pins_from_partial(&pw);
    pins.extend_from_slice(&outer.extra);
    // free-input audit: anything the prover controls beyond the documented inputs?
    let free = outer.cso.free_inputs(&pins, outer.cso.num_virtual_targets());
    rep.add("free_inputs_found", free.len() as u64);
    let mut pre: Vec<(Target, F)> = vec![];
    if !free.is_empty() {
        rep.note(&format!("{}: {} prover-controlled free inputs in the outer circuit", outer.label, free.len()));
        if let Some(key) = &foreign_key {
            if key.len() == free.len() {
                let mut ft = free.clone();
                ft.sort_by_key(|t| outer.cso.target_index(*t));
                pre = ft.into_iter().zip(key.iter().copied()).collect();
                rep.count("foreign_verifier_key_written_into_free_inputs");
            }
        }
    }
    let run = outer.cso.run(&pre, &pins, false);
    let ev = outer.cso.eval(&run);
    rep.nontrivial(&(outer.label.clone(), child_label.to_string(), slots.iter().map(|p| p.public_inputs.iter().map(|x| u(*x)).collect::<Vec<_>>()).collect::<Vec<_>>()));
    let _ = proof;
    if ev.accepted() != expect_accept {
        let (ok, _) = outer.cso.confirm(&run);
        if ok == ev.accepted() {
            if expect_accept {
                rep.violation("recursion / canonical child rejected", &format!("{}: a valid proof of the canonical child circuit is rejected", outer.label), case);
            } else {
                rep.violation(&format!("recursion / foreign child accepted ({child_label})"), &format!("{}: a proof produced by a different child circuit ({child_label}) satisfies the outer circuit and the real outer proof verifies", outer.label), case);
            }
        } else {
            rep.inconclusive("CSO and the real prover/verifier disagree on an outer circuit");
        }
    } else {
        rep.count(if expect_accept { "canonical_child_accepted" } else { "foreign_child_rejected" });
        if !expect_accept {
            rep.add("failing_rows_on_foreign_proofs", ev.failing_rows() as u64);
        }
    }
}

fn verifier_key_felts(d: &CircuitData<F, C, D>) -> Vec<F> {
    let mut v = vec![];
    for h in &d.verifier_only.constants_sigmas_cap.0 {
        v.extend_from_slice(&h.elements);
    }
    v.extend_from_slice(&d.verifier_only.circuit_digest.elements);
    v
}

pub fn run_c11(ctx: &Ctx) -> i32 {
    let rule = "program = alternative child circuit with a valid proof: the leaf re-assembled from its public fragments with one copy constraint / constant gate added or one binding removed (same configuration and public-input count, mostly the same CommonCircuitData), the leaf under the ZK config, an unconstrained 21-PI circuit; \
        for the public layer: private-batch circuits built over those variants. Each foreign proof is written into the proof targets of the real outer circuit (PrivateBatchCircuit over the canonical leaf / PublicBatchCircuit over the canonical private batch); oracle: every gate constraint of the outer circuit is evaluated (must fail) \
        and disagreements go through the real outer prover/verifier; a free-input audit looks for prover-controlled verifier-key targets and, if found, writes the foreign key there. non-trivial = every (outer, child, proof); distinct by those";
    let rep = Report::new("C11", "exploration", rule);
    rep.assume("plonky2's recursive verifier gadget is the trusted base; what is monitored is that the repository bakes the canonical verifier key in as constants and checks shapes at construction");
    let mut rng = ctx.rng("c11");
    let Ok(canon) = LeafCircuit::build() else {
        rep.inconclusive("leaf circuit did not build");
        return rep.finish(ctx, 1);
    };
    // outer private batch over the canonical leaf
    let n = 1usize;
    let full = match PrivFull::build(&canon.cso.data, n) {
        Ok(x) => x,
        Err(e) => {
            rep.inconclusive(&format!("private-batch circuit did not build: {e}"));
            return rep.finish(ctx, 1);
        }
    };
    let pre_t: Vec<(Target, F)> = full.targets.dummy_nullifier_pre_images.iter().flat_map(|ts| ts.iter().map(|t| (*t, F::ONE)).collect::<Vec<_>>()).collect();
    let proof_targets = full.targets.leaf_proofs.clone();
    let priv_canonical_data_for_public = PrivFull::build(&canon.cso.data, n).ok();
    let outer = match Cso::new(full.data) {
        Ok(c) => Outer { cso: c, proof_targets, extra: pre_t, label: "PrivateBatchCircuit(N=1) over the canonical leaf".into() },
        Err(e) => {
            rep.inconclusive(&format!("outer circuit not supported by the CSO: {e}"));
            return rep.finish(ctx, 1);
        }
    };
    rep.set_extra("outer_private", json!({"rows": outer.cso.degree, "generators": outer.cso.gen_ids.len()}));
    // positive control
    if let Some(p) = prove_on(&canon, Variant::Faithful, &mut rng) {
        judge_foreign(&rep, &outer, &p, "canonical leaf", true, None);
    }
    let variants = [Variant::Faithful, Variant::ExtraCopyConstraint, Variant::NullifierBindingRemoved, Variant::RootBindingRemoved, Variant::ExtraConstantGate, Variant::ZkConfig];
    let mut variant_circuits: Vec<(Variant, LeafCircuit)> = vec![];
    for v in variants {
        let Some(lc) = leaf_variant(v) else {
            rep.note(&format!("variant {v:?} did not build"));
            continue;
        };
        let same_digest = lc.cso.data.verifier_only.circuit_digest == canon.cso.data.verifier_only.circuit_digest;
        let same_common = lc.cso.data.common == canon.cso.data.common;
        rep.set_extra(&format!("variant_{v:?}"), json!({"same_common_data": same_common, "same_circuit_digest": same_digest, "rows": lc.cso.degree}));
        let reps = ctx.tier.pick(2usize, 12);
        for _ in 0..reps {
            if ctx.over_budget() {
                break;
            }
            let Some(p) = prove_on(&lc, v, &mut rng) else {
                rep.note(&format!("no proof for variant {v:?}"));
                continue;
            };
            if same_digest {
                // the re-assembly is byte-identical to the shipped circuit: it IS the canonical child
                judge_foreign(&rep, &outer, &p, "faithful re-assembly (identical digest)", true, None);
            } else {
                judge_foreign(&rep, &outer, &p, &format!("{v:?}"), false, Some(verifier_key_felts(&lc.cso.data)));
            }
        }
        variant_circuits.push((v, lc));
    }
    // unconstrained same-PI-count circuit (different shape)
    {
        let fake = FakeLeaf::build(LEAF_PI);
        let pis: Vec<F> = (0..21).map(|i| crate::cso::f(if (1..=3).contains(&i) { 5 } else { rng.gen_range(0..crate::leaf::P) })).collect();
        if let Ok(p) = fake.prove(&pis) {
            judge_foreign(&rep, &outer, &p, "unconstrained 21-PI circuit", false, None);
        }
    }
    // constructors refuse children of the wrong public-input count, without panicking
    for k in [0usize, 1, 20, 22, 29, 42] {
        let fake = FakeLeaf::build(k.max(4));
        rep.eval();
        rep.nontrivial(&("ctor-priv", k));
        let r = catch_unwind(AssertUnwindSafe(|| PrivateBatchCircuit::new(wormhole_private_batch_circuit_config(), &fake.data.common, &fake.data.verifier_only, 2).is_ok()));
        let want_ok = fake.data.common.num_public_inputs == 21;
        match r {
            Err(_) => rep.violation("recursion / PrivateBatchCircuit::new panics", &format!("PrivateBatchCircuit::new panicked for a child with {} public inputs", fake.data.common.num_public_inputs), json!({"pis": k})),
            Ok(ok) if ok != want_ok => rep.violation("recursion / PrivateBatchCircuit::new shape check", &format!("PrivateBatchCircuit::new returned ok={ok} for a child with {} public inputs", fake.data.common.num_public_inputs), json!({"pis": k})),
            _ => {}
        }
        let r = catch_unwind(AssertUnwindSafe(|| PublicBatchCircuit::new(wormhole_public_batch_circuit_config(), fake.data.common.clone(), &fake.data.verifier_only, 2, 1).is_ok()));
        let want_ok = fake.data.common.num_public_inputs == 29;
        match r {
            Err(_) => rep.violation("recursion / PublicBatchCircuit::new panics", &format!("PublicBatchCircuit::new panicked for a child with {} public inputs", fake.data.common.num_public_inputs), json!({"pis": k})),
            Ok(ok) if ok != want_ok => rep.violation("recursion / PublicBatchCircuit::new shape check", &format!("PublicBatchCircuit::new returned ok={ok} for a child with {} public inputs (N=1 expects 29)", fake.data.common.num_public_inputs), json!({"pis": k})),
            _ => {}
        }
    }
    // public layer: outer over the canonical private batch; foreign = private batches over leaf variants
    if let Some(pc) = priv_canonical_data_for_public {
        if let Ok(pub_full) = PubFull::build(&pc.data, 1, n) {
            let addr: Vec<(Target, F)> = pub_full.targets.aggregator_address.iter().map(|t| (*t, F::ONE)).collect();
            let pts = pub_full.targets.private_batch_proofs.clone();
            if let Ok(c) = Cso::new(pub_full.data) {
                let outer2 = Outer { cso: c, proof_targets: pts, extra: addr, label: "PublicBatchCircuit(M=1,N=1) over the canonical private batch".into() };
                rep.set_extra("outer_public", json!({"rows": outer2.cso.degree, "generators": outer2.cso.gen_ids.len()}));
                let pre: Vec<D4> = vec![rand_d4(&mut rng)];
                // positive control: canonical private-batch proof over a canonical leaf proof
                if let Some(lp) = prove_on(&canon, Variant::Faithful, &mut rng) {
                    if let Ok(pb) = pc.prove(&[lp], &pre) {
                        judge_foreign(&rep, &outer2, &pb, "canonical private batch", true, None);
                    }
                }
                for (v, lc) in variant_circuits.iter().filter(|(v, _)| matches!(v, Variant::ExtraCopyConstraint | Variant::NullifierBindingRemoved)).take(ctx.tier.pick(1, 2)) {
                    if ctx.over_budget() {
                        break;
                    }
                    if lc.cso.data.verifier_only.circuit_digest == canon.cso.data.verifier_only.circuit_digest {
                        continue;
                    }
                    let Ok(fpriv) = PrivFull::build(&lc.cso.data, n) else { continue };
                    let Some(lp) = prove_on(lc, *v, &mut rng) else { continue };
                    if let Ok(pb) = fpriv.prove(&[lp], &pre) {
                        judge_foreign(&rep, &outer2, &pb, &format!("private batch over leaf variant {v:?}"), false, Some(verifier_key_felts(&fpriv.data)));
                    }
                }
            }
        }
    }
    // multi-slot outers: EVERY slot must be verified against the baked key. A foreign proof sits in exactly one slot
    // (each position in turn), genuine canonical proofs in the others; the foreign statement (or the canonical one) is a
    // dummy sentinel so that the wrapper's own cross-slot rules are satisfied and only recursive verification can object.
    for n2 in ctx.tier.pick(vec![2usize], vec![2usize, 3]) {
        if ctx.over_budget() {
            break;
        }
        let Ok(full2) = PrivFull::build(&canon.cso.data, n2) else {
            rep.note(&format!("private-batch circuit N={n2} did not build"));
            continue;
        };
        let pre2: Vec<(Target, F)> = full2.targets.dummy_nullifier_pre_images.iter().enumerate().flat_map(|(i, ts)| ts.iter().enumerate().map(move |(j, t)| (*t, crate::cso::f((7 * i + j + 1) as u64))).collect::<Vec<_>>()).collect();
        let pts2 = full2.targets.leaf_proofs.clone();
        let Ok(c2) = Cso::new(full2.data) else { continue };
        let outer_n = Outer { cso: c2, proof_targets: pts2, extra: pre2, label: format!("PrivateBatchCircuit(N={n2}) over the canonical leaf") };
        let Some(canon_real) = prove_on_kind(&canon, Variant::Faithful, &mut rng, false) else { continue };
        let canon_dummies: Vec<Proof> = (0..n2).filter_map(|_| prove_on_kind(&canon, Variant::Faithful, &mut rng, true)).collect();
        if canon_dummies.len() < n2 {
            rep.note("canonical dummy leaf proofs could not be produced");
            continue;
        }
        // positive controls: the canonical real proof at each position, canonical dummies elsewhere
        for pos in 0..n2 {
            let slots: Vec<&Proof> = (0..n2).map(|i| if i == pos { &canon_real } else { &canon_dummies[i] }).collect();
            judge_foreign_slots(&rep, &outer_n, &slots, &format!("canonical real at slot {pos}, canonical dummies elsewhere"), true, None);
        }
        for (v, lc) in variant_circuits.iter() {
            if ctx.over_budget() {
                break;
            }
            if lc.cso.data.verifier_only.circuit_digest == canon.cso.data.verifier_only.circuit_digest {
                continue;
            }
            if !matches!(v, Variant::ExtraCopyConstraint | Variant::NullifierBindingRemoved | Variant::RootBindingRemoved | Variant::ExtraConstantGate) {
                continue;
            }
            let foreign_dummy = prove_on_kind(lc, *v, &mut rng, true);
            let foreign_real = prove_on_kind(lc, *v, &mut rng, false);
            for pos in 0..n2 {
                if let Some(fd) = &foreign_dummy {
                    // canonical real in another slot, canonical dummies in the rest
                    let real_at = (pos + 1) % n2;
                    let slots: Vec<&Proof> = (0..n2).map(|i| if i == pos { fd } else if i == real_at { &canon_real } else { &canon_dummies[i] }).collect();
                    judge_foreign_slots(&rep, &outer_n, &slots, &format!("{v:?} (dummy statement) at slot {pos} of {n2}, canonical elsewhere"), false, Some(verifier_key_felts(&lc.cso.data)));
                }
                if let Some(fr) = &foreign_real {
                    let slots: Vec<&Proof> = (0..n2).map(|i| if i == pos { fr } else { &canon_dummies[i] }).collect();
                    judge_foreign_slots(&rep, &outer_n, &slots, &format!("{v:?} (real statement) at slot {pos} of {n2}, canonical dummies elsewhere"), false, Some(verifier_key_felts(&lc.cso.data)));
                }
            }
            if ctx.tier == crate::util::Tier::Quick {
                // quick: two variants are enough per outer
                if matches!(v, Variant::NullifierBindingRemoved) {
                    break;
                }
            }
        }
    }
    // public layer with two inner slots
    if !ctx.over_budget() {
        if let Ok(pc1) = PrivFull::build(&canon.cso.data, 1) {
            if let Ok(pub2) = PubFull::build(&pc1.data, 2, 1) {
                let addr: Vec<(Target, F)> = pub2.targets.aggregator_address.iter().map(|t| (*t, F::ONE)).collect();
                let pts = pub2.targets.private_batch_proofs.clone();
                if let Ok(c) = Cso::new(pub2.data) {
                    let outer_p = Outer { cso: c, proof_targets: pts, extra: addr, label: "PublicBatchCircuit(M=2,N=1) over the canonical private batch".into() };
                    let pre: Vec<D4> = vec![rand_d4(&mut rng)];
                    let canon_real_pb = prove_on_kind(&canon, Variant::Faithful, &mut rng, false).and_then(|lp| pc1.prove(&[lp], &pre).ok());
                    let canon_dummy_pb = prove_on_kind(&canon, Variant::Faithful, &mut rng, true).and_then(|lp| pc1.prove(&[lp], &pre).ok());
                    if let (Some(cr), Some(cd)) = (&canon_real_pb, &canon_dummy_pb) {
                        judge_foreign_slots(&rep, &outer_p, &[cr, cd], "canonical real inner, canonical all-dummy inner", true, None);
                        judge_foreign_slots(&rep, &outer_p, &[cd, cr], "canonical all-dummy inner, canonical real inner", true, None);
                        for (v, lc) in variant_circuits.iter().filter(|(v, _)| matches!(v, Variant::ExtraCopyConstraint | Variant::NullifierBindingRemoved)).take(ctx.tier.pick(1, 2)) {
                            if lc.cso.data.verifier_only.circuit_digest == canon.cso.data.verifier_only.circuit_digest {
                                continue;
                            }
                            let Ok(fpriv) = PrivFull::build(&lc.cso.data, 1) else { continue };
                            let Some(fd) = prove_on_kind(lc, *v, &mut rng, true).and_then(|lp| fpriv.prove(&[lp], &pre).ok()) else { continue };
                            judge_foreign_slots(&rep, &outer_p, &[cr, &fd], &format!("all-dummy private batch over leaf variant {v:?} at inner slot 1 of 2"), false, Some(verifier_key_felts(&fpriv.data)));
                            judge_foreign_slots(&rep, &outer_p, &[&fd, cr], &format!("all-dummy private batch over leaf variant {v:?} at inner slot 0 of 2"), false, Some(verifier_key_felts(&fpriv.data)));
                        }
                    } else {
                        rep.note("canonical private-batch proofs for the two-slot public outer could not be produced");
                    }
                }
            }
        }
    }
    rep.sample(json!({"outer": "PrivateBatchCircuit(N=1) over the canonical leaf", "child": "leaf re-assembled with one extra copy constraint", "expected": "outer constraint system unsatisfied"}));
    rep.finish(ctx, ctx.tier.pick(4, 12))
}
