//! C05 (leaf prover completeness + public-input layout through the real API) and
//! C27 (native Merkle verifier vs model vs leaf circuit).

use crate::cso::{f, u};
use crate::leaf::*;
use crate::util::{Ctx, Report};
use plonky2::field::types::Field;
use plonky2::util::serialization::DefaultGateSerializer;
use qp_wormhole_inputs::{BytesDigest, PublicCircuitInputs};
use rand::Rng;
use rayon::prelude::*;
use serde_json::json;
use std::panic::{catch_unwind, AssertUnwindSafe};
use wormhole_circuit::inputs::{CircuitInputs, ParsePublicInputs, PrivateCircuitInputs};
use wormhole_circuit::sensitive::Secret;
use wormhole_prover::WormholeProver;
use wormhole_verifier::WormholeVerifier;
use zk_circuits_common::circuit::{wormhole_leaf_circuit_config, F};
use zk_circuits_common::zk_merkle::ZkMerkleProof;

pub fn d4_bytes(d: &D4) -> [u8; 32] {
    let mut b = [0u8; 32];
    for i in 0..4 {
        b[i * 8..i * 8 + 8].copy_from_slice(&u(d[i]).to_le_bytes());
    }
    b
}
pub fn bytes_d4(b: &[u8; 32]) -> D4 {
    let mut d = [F::ZERO; 4];
    for i in 0..4 {
        d[i] = f(u64::from_le_bytes(b[i * 8..i * 8 + 8].try_into().unwrap()));
    }
    d
}
fn bd(d: &D4) -> BytesDigest {
    BytesDigest::try_from(d4_bytes(d)).expect("canonical")
}

pub struct Honest {
    pub inputs: CircuitInputs,
    pub expected_pis: Vec<F>,
    pub depth: usize,
    pub dummy: bool,
}

/// honest inputs built from bytes, every derived value computed by the independent model
pub fn honest_inputs(rng: &mut impl Rng, depth: usize, dummy: bool, boundary: bool) -> Honest {
    let secret = rand_d4(rng);
    let tc: u64 = if boundary && rng.gen_bool(0.3) { u64::MAX } else { rng.gen() };
    let tcf = [f(tc >> 32), f(tc & 0xFFFF_FFFF)];
    let to = address_of(&secret);
    let asset: u32 = if rng.gen_bool(0.5) { 0 } else { rng.gen() };
    let fee: u32 = match rng.gen_range(0..4) {
        0 => 0,
        1 => 10000,
        _ => rng.gen_range(0..=10000),
    };
    let input: u32 = if boundary { *[u32::MAX, 1, 0, 10000].get(rng.gen_range(0..4)).unwrap() } else { rng.gen() };
    let max_out = (input as u128 * (10000 - fee) as u128 / 10000) as u32;
    let (o1, o2) = if dummy {
        (0, 0)
    } else {
        let total = if rng.gen_bool(0.5) { max_out } else { rng.gen_range(0..=max_out) };
        let a = if total == 0 { 0 } else { rng.gen_range(0..=total) };
        (a, total - a)
    };
    // tree path: random siblings, sorted; position = rank of the running hash (byte-wise order as the chain sorts)
    let mut cur = leaf_hash_of(&to, &tcf, f(asset as u64), f(input as u64));
    let mut siblings: Vec<[[u8; 32]; 3]> = vec![];
    let mut positions: Vec<u8> = vec![];
    for _ in 0..depth {
        let mut sibs = [d4_bytes(&rand_d4(rng)), d4_bytes(&rand_d4(rng)), d4_bytes(&rand_d4(rng))];
        // sparse trees: missing children are the empty hash, so honest paths carry [0,0,x] / [0,0,0] / duplicate siblings
        match rng.gen_range(0..8) {
            0 => sibs = [[0u8; 32]; 3],
            1 => {
                sibs[0] = [0u8; 32];
                sibs[1] = [0u8; 32];
            }
            2 => sibs[2] = [0u8; 32],
            3 => sibs[1] = sibs[0],
            _ => {}
        }
        sibs.sort();
        let curb = d4_bytes(&cur);
        let pos = sibs.iter().filter(|s| **s < curb).count();
        let sd = [bytes_d4(&sibs[0]), bytes_d4(&sibs[1]), bytes_d4(&sibs[2])];
        cur = node_hash(&cur, &sd, pos);
        siblings.push(sibs);
        positions.push(pos as u8);
    }
    let root = cur;
    let parent = rand_d4(rng);
    let state_root = rand_d4(rng);
    let extr_root = rand_d4(rng);
    let number: u32 = if boundary { u32::MAX } else { rng.gen() };
    let mut dbytes = [0u8; 110];
    rng.fill(&mut dbytes[..]);
    let dv = enc4(&dbytes);
    let mut digest = [F::ZERO; 28];
    digest.copy_from_slice(&dv);
    let block_hash = if dummy { [F::ZERO; 4] } else { header_hash(&parent, f(number as u64), &state_root, &extr_root, &root, &digest) };
    let nullifier = if dummy { rand_d4(rng) } else { nullifier_of(&secret, &tcf) };
    let exit1 = rand_d4(rng);
    let exit2 = if rng.gen_bool(0.3) { [F::ZERO; 4] } else { rand_d4(rng) };
    let public = PublicCircuitInputs {
        asset_id: asset,
        output_amount_1: o1,
        output_amount_2: o2,
        volume_fee_bps: fee,
        nullifier: bd(&nullifier),
        exit_account_1: bd(&exit1),
        exit_account_2: bd(&exit2),
        block_hash: bd(&block_hash),
        block_number: number,
    };
    let private = PrivateCircuitInputs {
        secret: Secret::from(bd(&secret)),
        transfer_count: tc,
        unspendable_account: bd(&to),
        parent_hash: bd(&parent),
        state_root: bd(&state_root),
        extrinsics_root: bd(&extr_root),
        digest: dbytes,
        input_amount: input,
        zk_tree_root: d4_bytes(&root),
        zk_merkle_siblings: siblings,
        zk_merkle_positions: positions,
    };
    let mut pis = vec![f(asset as u64), f(o1 as u64), f(o2 as u64), f(fee as u64)];
    pis.extend_from_slice(&nullifier);
    pis.extend_from_slice(&exit1);
    pis.extend_from_slice(&exit2);
    pis.extend_from_slice(&block_hash);
    pis.push(f(number as u64));
    Honest { inputs: CircuitInputs { public, private }, expected_pis: pis, depth, dummy }
}

fn pis_json(v: &[F]) -> serde_json::Value {
    json!(v.iter().map(|x| u(*x)).collect::<Vec<_>>())
}

pub fn run_c05(ctx: &Ctx) -> i32 {
    let rule = "case = honest CircuitInputs (random secret/count/amounts/fee/exit accounts, random 4-ary path of every depth 0..16, real and dummy, boundary amounts) driven through the real WormholeProver::commit/prove and the pinned WormholeVerifier; \
        plus malformed position/sibling vectors; non-trivial = every proved honest case and every malformed case; distinct by (public inputs, depth) / (malformation, parameters)";
    let rep = Report::new("C05", "exploration", rule);
    rep.assume("expected public inputs, nullifier, address, tree root and header hash are computed by the independent leaf model, so an Ok proof also cross-checks the native derivations");
    // pinned verifier from a fresh rebuild of the canonical circuit
    let lc = match LeafCircuit::build() {
        Ok(x) => x,
        Err(e) => {
            rep.inconclusive(&format!("leaf circuit did not build: {e}"));
            return rep.finish(ctx, 1);
        }
    };
    let vbytes = lc.cso.data.verifier_only.to_bytes().unwrap_or_default();
    let cbytes = lc.cso.data.common.to_bytes(&DefaultGateSerializer).unwrap_or_default();
    let verifier = match WormholeVerifier::new_from_bytes(&vbytes, &cbytes) {
        Ok(v) => v,
        Err(e) => {
            rep.violation("leaf-prover / pinned verifier rejects the canonical rebuild",
                &format!("WormholeVerifier::new_from_bytes refuses the artifacts of a fresh rebuild of the leaf circuit: {e}"), json!({}));
            return rep.finish(ctx, 1);
        }
    };
    let per_depth = ctx.tier.pick(10usize, 400);
    let jobs: Vec<(usize, usize)> = (0..=16).flat_map(|d| (0..per_depth).map(move |i| (d, i))).collect();
    jobs.par_iter().for_each(|&(depth, i)| {
        if ctx.over_budget() {
            return;
        }
        let mut rng = ctx.sub_rng("honest", (depth * 100_000 + i) as u64);
        let dummy = i % 4 == 3;
        let hcase = honest_inputs(&mut rng, depth, dummy, i % 5 == 0);
        rep.eval();
        let res = catch_unwind(AssertUnwindSafe(|| -> anyhow::Result<_> {
            let p = WormholeProver::new(wormhole_leaf_circuit_config())?;
            let p = p.commit(&hcase.inputs)?;
            p.prove()
        }));
        let case = || json!({"depth": depth, "dummy": dummy, "expected_pis": pis_json(&hcase.expected_pis), "positions": hcase.inputs.private.zk_merkle_positions});
        match res {
            Err(_) => rep.violation("leaf-prover / panic on honest input", "the leaf prover panicked on a well-formed honest input", case()),
            Ok(Err(e)) => rep.violation("leaf-prover / honest input rejected", &format!("the leaf prover failed on a well-formed honest input (depth {depth}, dummy {dummy}): {e}"), case()),
            Ok(Ok(proof)) => {
                rep.nontrivial(&(pis_json(&proof.public_inputs).to_string(), depth));
                rep.count(&format!("proved_depth_{depth:02}"));
                let vproof = wormhole_verifier::ProofWithPublicInputs::from_bytes(proof.to_bytes(), &verifier.circuit_data.common);
                let verified = match &vproof {
                    Ok(vp) => verifier.verify_ref(vp).is_ok(),
                    Err(_) => false,
                };
                if !verified {
                    rep.violation("leaf-prover / pinned verifier rejects an honest proof", "the pinned leaf verifier rejects a proof produced from honest inputs", case());
                }
                if proof.public_inputs != hcase.expected_pis {
                    rep.violation("leaf-prover / public-input layout", "the proof's 21 public inputs are not (asset,out1,out2,fee,nullifier,exit1,exit2,block hash,block number) of the statement",
                        json!({"case": case(), "observed": pis_json(&proof.public_inputs)}));
                }
                let p1 = <PublicCircuitInputs as ParsePublicInputs>::try_from_felts(&proof.public_inputs);
                let p2 = match &vproof {
                    Ok(vp) => wormhole_verifier::parse_public_inputs(vp),
                    Err(e) => Err(anyhow::anyhow!("{e}")),
                };
                let ok1 = matches!(&p1, Ok(x) if *x == hcase.inputs.public);
                let ok2 = matches!(&p2, Ok(x) if *x == hcase.inputs.public);
                if !ok1 || !ok2 {
                    rep.violation("leaf-prover / public inputs do not parse back", "parsing the proof's public inputs does not return the input statement", case());
                }
                if i == 0 && depth < 3 {
                    rep.sample(case());
                }
            }
        }
    });
    // malformed vectors: Err, never panic, never a proof
    let malformed = ctx.tier.pick(120usize, 3000);
    (0..malformed).into_par_iter().for_each(|i| {
        if ctx.over_budget() {
            return;
        }
        let mut rng = ctx.sub_rng("malformed", i as u64);
        let depth = rng.gen_range(0..=16usize);
        let mut hcase = honest_inputs(&mut rng, depth, i % 3 == 0, false);
        let kind = i % 5;
        let desc = match kind {
            0 => {
                let extra = rng.gen_range(17..=20usize);
                hcase.inputs.private.zk_merkle_siblings = vec![[[0u8; 32]; 3]; extra];
                hcase.inputs.private.zk_merkle_positions = vec![0u8; extra];
                format!("depth {extra}")
            }
            1 => {
                let l = hcase.inputs.private.zk_merkle_positions.len();
                let nl = if l == 0 || rng.gen_bool(0.5) { l + rng.gen_range(1..4) } else { l - 1 };
                hcase.inputs.private.zk_merkle_positions.resize(nl, 0);
                format!("positions len {nl} vs siblings {l}")
            }
            2 => {
                if depth == 0 {
                    hcase.inputs.private.zk_merkle_siblings = vec![[[1u8; 32]; 3]];
                    hcase.inputs.private.zk_merkle_positions = vec![rng.gen_range(4..=255)];
                } else {
                    let l = rng.gen_range(0..depth);
                    hcase.inputs.private.zk_merkle_positions[l] = rng.gen_range(4..=255);
                }
                "position above 3".to_string()
            }
            3 => {
                let l = hcase.inputs.private.zk_merkle_siblings.len();
                hcase.inputs.private.zk_merkle_siblings.truncate(l.saturating_sub(1));
                if l == 0 {
                    hcase.inputs.private.zk_merkle_positions = vec![0];
                }
                "siblings shorter than positions".to_string()
            }
            _ => {
                hcase.inputs.private.zk_merkle_positions = vec![0u8; 1 << 16];
                "65536 positions".to_string()
            }
        };
        rep.eval();
        rep.nontrivial(&("malformed", desc.clone(), i));
        rep.count(&format!("malformed_kind_{kind}"));
        let res = catch_unwind(AssertUnwindSafe(|| -> anyhow::Result<_> {
            let p = WormholeProver::new(wormhole_leaf_circuit_config())?;
            let p = p.commit(&hcase.inputs)?;
            p.prove()
        }));
        match res {
            Err(_) => rep.violation("leaf-prover / panic on malformed path", &format!("the leaf prover panicked on a malformed path ({desc})"), json!({"malformation": desc})),
            Ok(Ok(_)) => rep.violation("leaf-prover / malformed path proved", &format!("the leaf prover produced a proof for a malformed path ({desc})"), json!({"malformation": desc})),
            Ok(Err(_)) => {}
        }
    });
    rep.finish(ctx, ctx.tier.pick(50, 1000))
}

// ---------------------------------------------------------------------------
// C27
// ---------------------------------------------------------------------------

#[derive(Clone, Debug)]
struct Path {
    leaf: [u8; 32],
    siblings: Vec<[[u8; 32]; 3]>,
    positions: Vec<u8>,
    root: [u8; 32],
}

fn canonical(b: &[u8; 32]) -> bool {
    (0..4).all(|i| u64::from_le_bytes(b[i * 8..i * 8 + 8].try_into().unwrap()) < P)
}

fn model_verify(p: &Path) -> bool {
    if p.siblings.len() > 16 || p.siblings.len() != p.positions.len() {
        return false;
    }
    if !canonical(&p.leaf) || !p.siblings.iter().flatten().all(canonical) {
        return false;
    }
    let mut cur = bytes_d4(&p.leaf);
    for (s, &pos) in p.siblings.iter().zip(&p.positions) {
        if pos > 3 {
            return false;
        }
        let sd = [bytes_d4(&s[0]), bytes_d4(&s[1]), bytes_d4(&s[2])];
        cur = node_hash(&cur, &sd, pos as usize);
    }
    d4_bytes(&cur) == p.root
}

/// a byte-distinct, non-canonical spelling of the same digest: one limb v < 2^32-1 written as v + p (still fits 8 bytes)
fn p_alias(h: &[u8; 32]) -> Option<[u8; 32]> {
    for k in 0..4 {
        let v = u64::from_le_bytes(h[k * 8..k * 8 + 8].try_into().unwrap());
        if v < (1u64 << 32) - 1 {
            let mut o = *h;
            o[k * 8..k * 8 + 8].copy_from_slice(&(v + P).to_le_bytes());
            return Some(o);
        }
    }
    None
}

/// canonical digest; `small` forces one limb below 2^32-1 so that a p-alias exists
fn rand_hash(rng: &mut impl Rng, small: bool) -> [u8; 32] {
    let mut d = rand_d4(rng);
    if small {
        d[rng.gen_range(0..4)] = f(match rng.gen_range(0..3) {
            0 => 0,
            1 => (1u64 << 32) - 2,
            _ => rng.gen_range(0..(1u64 << 32) - 1),
        });
    }
    d4_bytes(&d)
}

fn valid_path(rng: &mut impl Rng, depth: usize) -> (Path, Vec<[[u8; 32]; 3]>) {
    let small = rng.gen_bool(0.3);
    let leaf = rand_hash(rng, small);
    let mut cur = bytes_d4(&leaf);
    let mut siblings = vec![];
    let mut unsorted = vec![];
    let mut positions = vec![];
    for _ in 0..depth {
        let mut sibs = [rand_hash(rng, small), d4_bytes(&rand_d4(rng)), d4_bytes(&rand_d4(rng))];
        if rng.gen_bool(0.1) {
            sibs[1] = sibs[0];
        }
        if rng.gen_bool(0.05) {
            sibs[2] = d4_bytes(&cur);
        }
        unsorted.push(sibs);
        sibs.sort();
        let curb = d4_bytes(&cur);
        let pos = sibs.iter().filter(|s| **s < curb).count();
        let sd = [bytes_d4(&sibs[0]), bytes_d4(&sibs[1]), bytes_d4(&sibs[2])];
        cur = node_hash(&cur, &sd, pos);
        siblings.push(sibs);
        positions.push(pos as u8);
    }
    (Path { leaf, siblings, positions, root: d4_bytes(&cur) }, unsorted)
}

fn native_verify(p: &Path) -> Result<bool, ()> {
    catch_unwind(AssertUnwindSafe(|| ZkMerkleProof::new(0, p.siblings.clone(), p.positions.clone(), p.leaf, p.root).verify_with_positions())).map_err(|_| ())
}

fn path_json(p: &Path) -> serde_json::Value {
    json!({"leaf": hex::encode(p.leaf), "root": hex::encode(p.root), "positions": p.positions,
        "siblings": p.siblings.iter().map(|l| l.iter().map(hex::encode).collect::<Vec<_>>()).collect::<Vec<_>>()})
}

pub fn run_c27(ctx: &Ctx) -> i32 {
    let rule = "case = 4-ary path (depth 0..17, canonical / non-canonical hashes, every single corruption of a valid proof: leaf, each sibling, each position to values 0..255, root, lengths); \
        oracles: native verify == model fold; from_unsorted builds a verifying proof with positions = sorted rank; the leaf circuit (CSO on the real circuit, otherwise-valid statement) accepts the path iff the native verifier does; \
        non-trivial = every judged path; distinct by path content";
    let rep = Report::new("C27", "exploration", rule);
    let n = ctx.tier.pick(3000usize, 150_000);
    (0..n).into_par_iter().for_each(|i| {
        if i % 64 == 0 && ctx.over_budget() {
            return;
        }
        let mut rng = ctx.sub_rng("paths", i as u64);
        let depth = match i % 20 {
            0 | 3 | 4 => 0,
            1 => 16,
            2 => 17,
            _ => rng.gen_range(0..=17usize),
        };
        let (base, unsorted) = valid_path(&mut rng, depth);
        let mut cases: Vec<(&'static str, Path)> = vec![("valid", base.clone())];
        let mut c = base.clone();
        c.leaf[rng.gen_range(0..32)] ^= 1 << rng.gen_range(0..8);
        cases.push(("leaf-flip", c));
        let mut c = base.clone();
        c.root[rng.gen_range(0..32)] ^= 1 << rng.gen_range(0..8);
        cases.push(("root-flip", c));
        if depth > 0 {
            let l = rng.gen_range(0..depth);
            let mut c = base.clone();
            c.siblings[l][rng.gen_range(0..3)][rng.gen_range(0..32)] ^= 1 << rng.gen_range(0..8);
            cases.push(("sibling-flip", c));
            let mut c = base.clone();
            c.positions[l] = rng.gen();
            cases.push(("position-any", c));
            let mut c = base.clone();
            c.positions[l] = (c.positions[l] + 1) % 4;
            cases.push(("position-wrong", c));
            let mut c = base.clone();
            c.positions.pop();
            cases.push(("positions-short", c));
            let mut c = base.clone();
            c.siblings.pop();
            cases.push(("siblings-short", c));
            let mut c = base.clone();
            let v = *[P, P + 1, u64::MAX].get(rng.gen_range(0..3)).unwrap();
            let k = rng.gen_range(0..4);
            c.siblings[l][rng.gen_range(0..3)][k * 8..k * 8 + 8].copy_from_slice(&v.to_le_bytes());
            cases.push(("sibling-noncanonical", c));
            let mut c = base.clone();
            c.siblings[l].swap(0, 2);
            cases.push(("siblings-reordered", c));
        }
        let mut c = base.clone();
        c.leaf[0..8].copy_from_slice(&P.to_le_bytes());
        cases.push(("leaf-noncanonical", c));
        // p-aliases: the same field elements spelled non-canonically, for the root (depth 0: root = leaf, so a small limb
        // can be forced; deeper roots only when Poseidon happens to produce one), the leaf and a sibling
        if let Some(al) = p_alias(&base.root) {
            let mut c = base.clone();
            c.root = al;
            cases.push(("root-p-alias", c));
            if depth == 0 {
                let mut c = base.clone();
                c.root = al;
                c.leaf = al;
                cases.push(("root-and-leaf-p-alias", c));
            }
        }
        if let Some(al) = p_alias(&base.leaf) {
            let mut c = base.clone();
            c.leaf = al;
            cases.push(("leaf-p-alias", c));
        }
        if depth > 0 {
            let l = rng.gen_range(0..depth);
            for j in 0..3 {
                if let Some(al) = p_alias(&base.siblings[l][j]) {
                    let mut c = base.clone();
                    c.siblings[l][j] = al;
                    cases.push(("sibling-p-alias", c));
                    break;
                }
            }
        }
        let mut c = base.clone();
        c.positions.push(0);
        cases.push(("positions-long", c));
        for (fam, p) in cases {
            rep.eval();
            rep.count(&format!("family:{fam}"));
            rep.nontrivial(&(fam, &p.leaf, &p.root, &p.positions, p.siblings.len(), p.siblings.last().cloned()));
            let want = model_verify(&p);
            match native_verify(&p) {
                Err(()) => rep.violation("native-merkle / verify panics", &format!("verify_with_positions panicked ({fam})"), path_json(&p)),
                Ok(got) => {
                    if got != want {
                        rep.violation(&format!("native-merkle / acceptance got={got} want={want}"),
                            &format!("native verifier {} a path the fold model {} ({fam}, depth {})", if got {"accepts"} else {"rejects"}, if want {"accepts"} else {"rejects"}, p.siblings.len()), path_json(&p));
                    }
                    if got {
                        rep.count("native_accepted");
                    }
                }
            }
        }
        // from_unsorted
        rep.eval();
        let r = catch_unwind(AssertUnwindSafe(|| ZkMerkleProof::from_unsorted(0, unsorted.clone(), base.leaf, base.root)));
        match r {
            Err(_) => rep.violation("native-merkle / from_unsorted panics", "from_unsorted panicked on a canonical path", path_json(&base)),
            Ok(Err(e)) => {
                if depth <= 16 {
                    rep.violation("native-merkle / from_unsorted rejects a canonical path", &format!("from_unsorted failed on a canonical path of depth {depth}: {e}"), path_json(&base));
                }
            }
            Ok(Ok(proof)) => {
                if depth > 16 {
                    rep.violation("native-merkle / from_unsorted accepts depth above 16", "from_unsorted built a proof deeper than 16", path_json(&base));
                } else {
                    rep.count("from_unsorted_ok");
                    // positions = sorted rank (first occurrence) and the proof verifies
                    let mut cur = base.leaf;
                    let mut ok = proof.verify();
                    for (l, sibs) in unsorted.iter().enumerate() {
                        let mut four = [cur, sibs[0], sibs[1], sibs[2]];
                        four.sort();
                        let rank = four.iter().position(|x| *x == cur).unwrap() as u8;
                        if proof.positions[l] != rank {
                            ok = false;
                        }
                        let fd = [bytes_d4(&four[0]), bytes_d4(&four[1]), bytes_d4(&four[2]), bytes_d4(&four[3])];
                        let flat: Vec<F> = fd.iter().flat_map(|x| x.iter().copied()).collect();
                        cur = d4_bytes(&h(&flat));
                    }
                    if !ok || cur != base.root {
                        rep.violation("native-merkle / from_unsorted result", "from_unsorted positions are not the sorted rank or the proof does not verify", path_json(&base));
                    }
                }
            }
        }
    });
    // circuit vs native on the same path, inside an otherwise valid real statement
    let lc = match LeafCircuit::build() {
        Ok(x) => x,
        Err(e) => {
            rep.inconclusive(&format!("leaf circuit did not build: {e}"));
            return rep.finish(ctx, 1);
        }
    };
    let m = ctx.tier.pick(1500usize, 60_000);
    (0..m).into_par_iter().for_each(|i| {
        if i % 64 == 0 && ctx.over_budget() {
            return;
        }
        let mut rng = ctx.sub_rng("circ", i as u64);
        let depth = rng.gen_range(0..=16usize);
        let mut a = LeafAsg::baseline(&mut rng, &BaselineOpts { depth, dummy: false });
        let fam = match i % 6 {
            0 => "valid",
            1 => {
                if depth > 0 {
                    let l = rng.gen_range(0..depth);
                    a.siblings[l][rng.gen_range(0..3)][rng.gen_range(0..4)] += F::ONE;
                }
                "sibling"
            }
            2 => {
                if depth > 0 {
                    let l = rng.gen_range(0..depth);
                    a.positions[l] = f(rng.gen_range(0..8));
                }
                "position"
            }
            3 => {
                a.root[rng.gen_range(0..4)] += F::ONE;
                a.hdr_root = a.root;
                a.block_hash = header_hash(&a.parent, a.hdr_number, &a.state_root, &a.extr_root, &a.hdr_root, &a.digest);
                "root"
            }
            4 => {
                // shorter depth with the same root
                if depth > 0 {
                    a.depth = f((depth - 1) as u64);
                }
                "depth-short"
            }
            _ => {
                a.leaf_tc[1] += F::ONE;
                a.null_tc = a.leaf_tc;
                a.nullifier = nullifier_of(&a.null_secret, &a.null_tc);
                "leaf-data"
            }
        };
        let (pre, pins) = lc.pins(&a);
        let run = lc.cso.run(&pre, &pins, false);
        let acc = lc.cso.eval(&run).accepted();
        let back = lc.read_back(&run);
        let d = u(back.depth);
        rep.eval();
        rep.count(&format!("circuit_family:{fam}"));
        if d > 16 {
            return;
        }
        let d = d as usize;
        if back.positions[..d].iter().any(|p| u(*p) > 255) {
            return;
        }
        let p = Path {
            leaf: d4_bytes(&leaf_hash_of(&back.leaf_to, &back.leaf_tc, back.asset, back.input)),
            siblings: back.siblings[..d].iter().map(|l| [d4_bytes(&l[0]), d4_bytes(&l[1]), d4_bytes(&l[2])]).collect(),
            positions: back.positions[..d].iter().map(|x| u(*x) as u8).collect(),
            root: d4_bytes(&back.root),
        };
        // everything except the tree walk is valid by construction (model says only Tree may fail)
        let other: Vec<Clause> = model_check(&back).into_iter().filter(|c| *c != Clause::Tree).collect();
        if !other.is_empty() {
            return;
        }
        rep.nontrivial(&("circ", path_json(&p).to_string()));
        match native_verify(&p) {
            Err(()) => rep.violation("native-merkle / verify panics", "verify_with_positions panicked", path_json(&p)),
            Ok(nat) => {
                if nat != acc {
                    rep.violation(&format!("native-merkle / circuit={acc} native={nat}"),
                        &format!("the leaf circuit {} a tree path that the native verifier {} ({fam})", if acc {"accepts"} else {"rejects"}, if nat {"accepts"} else {"rejects"}), path_json(&p));
                }
                rep.count(if acc { "circuit_accepts" } else { "circuit_rejects" });
            }
        }
    });
    let mut rng = ctx.rng("sample");
    let (p, _) = valid_path(&mut rng, 2);
    rep.sample(path_json(&p));
    rep.finish(ctx, ctx.tier.pick(1000, 20000))
}
