//! Leaf circuit: per-site assignments, independent reference model of the leaf
//! relation R_leaf (written from the property statements), pin construction and
//! read-back from a judged witness.

use crate::cso::{f, u, Cso, Run};
use plonky2::field::types::Field;
use plonky2::hash::poseidon2::Poseidon2Hash;
use plonky2::iop::target::Target;
use plonky2::plonk::config::Hasher;
use rand::Rng;
use serde_json::{json, Value};
use wormhole_circuit::circuit::circuit_logic::{CircuitTargets, WormholeCircuit};
use zk_circuits_common::circuit::F;

pub const P: u64 = 0xFFFF_FFFF_0000_0001;
pub const MAX_DEPTH: usize = 16;

pub type D4 = [F; 4];

pub fn h(input: &[F]) -> D4 {
    Poseidon2Hash::hash_no_pad(input).elements
}

/// independent re-implementation of the 4-bytes-per-felt + terminator encoding
pub fn enc4(bytes: &[u8]) -> Vec<F> {
    let mut b = bytes.to_vec();
    b.push(1);
    while b.len() % 4 != 0 {
        b.push(0);
    }
    b.chunks(4)
        .map(|c| f(u32::from_le_bytes([c[0], c[1], c[2], c[3]]) as u64))
        .collect()
}

pub fn nullifier_of(secret: &D4, tc: &[F; 2]) -> D4 {
    let mut pre = enc4(b"~nullif~");
    pre.extend_from_slice(secret);
    pre.extend_from_slice(tc);
    h(&h(&pre))
}

pub fn address_of(secret: &D4) -> D4 {
    let mut pre = enc4(b"wormhole");
    pre.extend_from_slice(secret);
    h(&h(&pre))
}

pub fn leaf_hash_of(to: &D4, tc: &[F; 2], asset: F, input: F) -> D4 {
    let mut pre = to.to_vec();
    pre.extend_from_slice(tc);
    pre.push(asset);
    pre.push(input);
    h(&pre)
}

/// children with `cur` inserted at `pos` (0..3) among three siblings
pub fn node_hash(cur: &D4, sibs: &[D4; 3], pos: usize) -> D4 {
    let mut children: Vec<D4> = sibs.to_vec();
    children.insert(pos, *cur);
    let flat: Vec<F> = children.iter().flat_map(|c| c.iter().copied()).collect();
    h(&flat)
}

/// What the circuit computes for an arbitrary position felt at one level
/// (select network semantics: pos_is_k flags; out-of-range position drops the
/// running hash). Used only to craft attacks.
pub fn node_hash_circuit_semantics(cur: &D4, sibs: &[D4; 3], pos: u64) -> D4 {
    let is = |k: u64| pos == k;
    let c0 = if is(0) { *cur } else { sibs[0] };
    let c1 = if is(1) { *cur } else if is(0) { sibs[0] } else { sibs[1] };
    let c2 = if is(2) { *cur } else if is(0) || is(1) { sibs[1] } else { sibs[2] };
    let c3 = if is(3) { *cur } else { sibs[2] };
    let flat: Vec<F> = [c0, c1, c2, c3].iter().flat_map(|c| c.iter().copied()).collect();
    h(&flat)
}

pub fn header_hash(parent: &D4, number: F, state: &D4, extr: &D4, root: &D4, digest: &[F; 28]) -> D4 {
    let mut pre = parent.to_vec();
    pre.push(number);
    pre.extend_from_slice(state);
    pre.extend_from_slice(extr);
    pre.extend_from_slice(root);
    pre.extend_from_slice(digest);
    h(&pre)
}

#[derive(Clone, Debug)]
pub struct LeafAsg {
    // public statement (21 felts)
    pub asset: F,
    pub out1: F,
    pub out2: F,
    pub fee: F,
    pub nullifier: D4,
    pub exit1: D4,
    pub exit2: D4,
    pub block_hash: D4,
    pub block_number: F,
    // private, per target site
    pub null_secret: D4,
    pub ua_secret: D4,
    pub null_tc: [F; 2],
    pub leaf_tc: [F; 2],
    pub ua_account: D4,
    pub leaf_to: D4,
    pub input: F,
    pub root: D4,
    pub depth: F,
    pub siblings: Vec<[D4; 3]>,
    pub positions: Vec<F>,
    pub parent: D4,
    pub hdr_number: F,
    pub state_root: D4,
    pub extr_root: D4,
    pub hdr_root: D4,
    pub digest: [F; 28],
    /// attack-only: pin the merkle fragment's is_not_dummy flag
    pub flag_pin: Option<F>,
}

pub fn rand_canon(rng: &mut impl Rng) -> F {
    f(rng.gen_range(0..P))
}
pub fn rand_d4(rng: &mut impl Rng) -> D4 {
    [rand_canon(rng), rand_canon(rng), rand_canon(rng), rand_canon(rng)]
}

pub struct BaselineOpts {
    pub depth: usize,
    pub dummy: bool,
}

impl LeafAsg {
    /// A fully consistent statement+witness, built natively.
    pub fn baseline(rng: &mut impl Rng, o: &BaselineOpts) -> Self {
        let secret = rand_d4(rng);
        let tcv: u64 = rng.gen();
        let tc = [f(tcv >> 32), f(tcv & 0xFFFF_FFFF)];
        let to = address_of(&secret);
        let asset = f(if rng.gen_bool(0.5) { 0 } else { rng.gen_range(0..=u32::MAX as u64) });
        let fee_v: u64 = match rng.gen_range(0..4) {
            0 => 0,
            1 => 10000,
            _ => rng.gen_range(0..=10000),
        };
        let input_v: u64 = match rng.gen_range(0..4) {
            0 => u32::MAX as u64,
            _ => rng.gen_range(1..=u32::MAX as u64),
        };
        let max_out = (input_v as u128 * (10000 - fee_v) as u128 / 10000) as u64;
        let (o1, o2) = if o.dummy {
            (0, 0)
        } else {
            let total = if rng.gen_bool(0.5) { max_out } else { rng.gen_range(0..=max_out) };
            let a = if total == 0 { 0 } else { rng.gen_range(0..=total) };
            (a, total - a)
        };
        let input = f(input_v);
        let mut cur = leaf_hash_of(&to, &tc, asset, input);
        let mut siblings = vec![];
        let mut positions = vec![];
        for _ in 0..o.depth {
            let sibs = [rand_d4(rng), rand_d4(rng), rand_d4(rng)];
            let pos = rng.gen_range(0..4usize);
            cur = node_hash(&cur, &sibs, pos);
            siblings.push(sibs);
            positions.push(f(pos as u64));
        }
        for _ in o.depth..MAX_DEPTH {
            siblings.push([[F::ZERO; 4]; 3]);
            positions.push(F::ZERO);
        }
        let root = cur;
        let parent = rand_d4(rng);
        let state_root = rand_d4(rng);
        let extr_root = rand_d4(rng);
        let number = f(rng.gen_range(0..=u32::MAX as u64));
        let mut dbytes = [0u8; 110];
        rng.fill(&mut dbytes[..]);
        let dv = enc4(&dbytes);
        let mut digest = [F::ZERO; 28];
        digest.copy_from_slice(&dv);
        let block_hash = if o.dummy {
            [F::ZERO; 4]
        } else {
            header_hash(&parent, number, &state_root, &extr_root, &root, &digest)
        };
        let nullifier = if o.dummy { rand_d4(rng) } else { nullifier_of(&secret, &tc) };
        LeafAsg {
            asset,
            out1: f(o1),
            out2: f(o2),
            fee: f(fee_v),
            nullifier,
            exit1: rand_d4(rng),
            exit2: if rng.gen_bool(0.2) { [F::ZERO; 4] } else { rand_d4(rng) },
            block_hash,
            block_number: number,
            null_secret: secret,
            ua_secret: secret,
            null_tc: tc,
            leaf_tc: tc,
            ua_account: to,
            leaf_to: to,
            input,
            root,
            depth: f(o.depth as u64),
            siblings,
            positions,
            parent,
            hdr_number: number,
            state_root,
            extr_root,
            hdr_root: root,
            digest,
            flag_pin: None,
        }
    }

    pub fn public_inputs(&self) -> Vec<F> {
        let mut v = vec![self.asset, self.out1, self.out2, self.fee];
        v.extend_from_slice(&self.nullifier);
        v.extend_from_slice(&self.exit1);
        v.extend_from_slice(&self.exit2);
        v.extend_from_slice(&self.block_hash);
        v.push(self.block_number);
        v
    }

    /// recompute the leaf hash / tree fold / header hash / nullifier so that the
    /// statement is consistent again after a field was changed ("only the
    /// mechanism under test can reject").
    pub fn recompute(&mut self, keep_dummy: bool) {
        let d = u(self.depth).min(MAX_DEPTH as u64) as usize;
        let mut cur = leaf_hash_of(&self.leaf_to, &self.leaf_tc, self.asset, self.input);
        for l in 0..d {
            cur = node_hash_circuit_semantics(&cur, &self.siblings[l], u(self.positions[l]));
        }
        self.root = cur;
        self.hdr_root = cur;
        if !keep_dummy {
            self.block_hash = header_hash(
                &self.parent,
                self.hdr_number,
                &self.state_root,
                &self.extr_root,
                &self.hdr_root,
                &self.digest,
            );
            self.nullifier = nullifier_of(&self.null_secret, &self.null_tc);
        }
    }

    pub fn to_json(&self) -> Value {
        let d4 = |d: &D4| json!(d.iter().map(|x| u(*x)).collect::<Vec<_>>());
        let depth = u(self.depth);
        let shown = (depth.min(16) as usize).min(3);
        json!({
            "pi": self.public_inputs().iter().map(|x| u(*x)).collect::<Vec<_>>(),
            "null_secret": d4(&self.null_secret), "ua_secret": d4(&self.ua_secret),
            "null_tc": [u(self.null_tc[0]), u(self.null_tc[1])],
            "leaf_tc": [u(self.leaf_tc[0]), u(self.leaf_tc[1])],
            "ua_account": d4(&self.ua_account), "leaf_to": d4(&self.leaf_to),
            "input": u(self.input), "root": d4(&self.root), "hdr_root": d4(&self.hdr_root),
            "depth": depth,
            "positions": self.positions.iter().map(|x| u(*x)).collect::<Vec<_>>(),
            "siblings_first_levels": self.siblings[..shown].iter().map(|l| l.iter().map(|s| d4(s)).collect::<Vec<_>>()).collect::<Vec<_>>(),
            "hdr_number": u(self.hdr_number),
            "flag_pin": self.flag_pin.map(u),
        })
    }
}

#[derive(Clone, Copy, Debug, PartialEq, Eq, Hash, PartialOrd, Ord)]
pub enum Clause {
    Range(&'static str),
    FeeCap,
    FeeIneq,
    NullHash,
    Address,
    SecretSplit,
    CountSplit,
    AccountSplit,
    HeaderHash,
    NumberSplit,
    Tree,
    RootSplit,
}

impl Clause {
    pub fn owner(&self) -> &'static str {
        match self {
            Clause::Range(_) | Clause::FeeCap | Clause::FeeIneq => "C01",
            Clause::NullHash | Clause::Address | Clause::SecretSplit | Clause::CountSplit | Clause::AccountSplit => "C02",
            _ => "C03",
        }
    }
    pub fn is_binding(&self) -> bool {
        self.owner() != "C01"
    }
}

pub fn model_is_dummy(a: &LeafAsg) -> bool {
    a.block_hash.iter().all(|x| *x == F::ZERO) && a.out1 == F::ZERO && a.out2 == F::ZERO
}

/// All clauses of R_leaf violated by the (read-back) assignment.
pub fn model_check(a: &LeafAsg) -> Vec<Clause> {
    let mut v = vec![];
    let lim = 1u64 << 32;
    let mut ranges_ok = true;
    for (name, x) in [
        ("asset", a.asset),
        ("input", a.input),
        ("out1", a.out1),
        ("out2", a.out2),
        ("fee", a.fee),
        ("tc_hi", a.leaf_tc[0]),
        ("tc_lo", a.leaf_tc[1]),
        ("block_number", a.block_number),
    ] {
        if u(x) >= lim {
            v.push(Clause::Range(name));
            ranges_ok = false;
        }
    }
    if u(a.fee) > 10000 {
        v.push(Clause::FeeCap);
    } else if ranges_ok {
        let lhs = (u(a.out1) as u128 + u(a.out2) as u128) * 10000;
        let rhs = u(a.input) as u128 * (10000 - u(a.fee)) as u128;
        if lhs > rhs {
            v.push(Clause::FeeIneq);
        }
    }
    if !model_is_dummy(a) {
        if a.nullifier != nullifier_of(&a.null_secret, &a.null_tc) {
            v.push(Clause::NullHash);
        }
        if a.ua_account != address_of(&a.ua_secret) {
            v.push(Clause::Address);
        }
        if a.null_secret != a.ua_secret {
            v.push(Clause::SecretSplit);
        }
        if a.null_tc != a.leaf_tc {
            v.push(Clause::CountSplit);
        }
        if a.ua_account != a.leaf_to {
            v.push(Clause::AccountSplit);
        }
        if a.block_hash
            != header_hash(&a.parent, a.hdr_number, &a.state_root, &a.extr_root, &a.hdr_root, &a.digest)
        {
            v.push(Clause::HeaderHash);
        }
        if a.block_number != a.hdr_number {
            v.push(Clause::NumberSplit);
        }
        if a.root != a.hdr_root {
            v.push(Clause::RootSplit);
        }
        // existential over prefix depths 0..=16 of the supplied path
        let mut cur = leaf_hash_of(&a.leaf_to, &a.leaf_tc, a.asset, a.input);
        let mut found = cur == a.hdr_root;
        for l in 0..MAX_DEPTH {
            if found {
                break;
            }
            let p = u(a.positions[l]);
            if p > 3 {
                break;
            }
            cur = node_hash(&cur, &a.siblings[l], p as usize);
            if cur == a.hdr_root {
                found = true;
            }
        }
        if !found {
            v.push(Clause::Tree);
        }
    }
    v
}

pub struct LeafCircuit {
    pub cso: Cso,
    pub t: CircuitTargets,
}

impl LeafCircuit {
    pub fn build() -> anyhow::Result<Self> {
        let c = WormholeCircuit::new(zk_circuits_common::circuit::wormhole_leaf_circuit_config())?;
        let t = c.targets();
        let data = c.build_circuit();
        Ok(Self { cso: Cso::new(data)?, t })
    }

    /// (pre-pins, pins): statement first (PI target list), then every named site.
    pub fn pins(&self, a: &LeafAsg) -> (Vec<(Target, F)>, Vec<(Target, F)>) {
        let t = &self.t;
        let mut pre = vec![];
        if let Some(v) = a.flag_pin {
            pre.push((t.zk_merkle_proof.is_not_dummy.target, v));
        }
        let mut p: Vec<(Target, F)> = vec![];
        let pis = a.public_inputs();
        let pit = &self.cso.data.prover_only.public_inputs;
        for (i, &tt) in pit.iter().enumerate() {
            if i < pis.len() {
                p.push((tt, pis[i]));
            }
        }
        let z = &t.zk_merkle_proof;
        p.push((z.leaf.asset_id, a.asset));
        p.push((z.leaf.output_amount_1, a.out1));
        p.push((z.leaf.output_amount_2, a.out2));
        p.push((z.leaf.volume_fee_bps, a.fee));
        for i in 0..4 {
            p.push((t.nullifier.hash.elements[i], a.nullifier[i]));
            p.push((t.exit_accounts.exit_account_1.address.elements[i], a.exit1[i]));
            p.push((t.exit_accounts.exit_account_2.address.elements[i], a.exit2[i]));
            p.push((t.block_header.block_hash.elements[i], a.block_hash[i]));
        }
        for i in 0..4 {
            p.push((t.nullifier.secret.elements[i], a.null_secret[i]));
            p.push((t.unspendable_account.secret.elements[i], a.ua_secret[i]));
            p.push((t.unspendable_account.account_id.elements[i], a.ua_account[i]));
            p.push((z.leaf.to_account.elements[i], a.leaf_to[i]));
            p.push((z.root_hash.elements[i], a.root[i]));
            p.push((t.block_header.header.parent_hash[i], a.parent[i]));
            p.push((t.block_header.header.state_root[i], a.state_root[i]));
            p.push((t.block_header.header.extrinsics_root[i], a.extr_root[i]));
            p.push((t.block_header.header.zk_tree_root[i], a.hdr_root[i]));
        }
        for i in 0..2 {
            p.push((t.nullifier.transfer_count[i], a.null_tc[i]));
            p.push((z.leaf.transfer_count[i], a.leaf_tc[i]));
        }
        p.push((z.leaf.input_amount, a.input));
        p.push((z.depth, a.depth));
        p.push((t.block_header.header.block_number, a.hdr_number));
        for l in 0..z.siblings.len().min(a.siblings.len()) {
            for s in 0..3 {
                for i in 0..4 {
                    p.push((z.siblings[l][s].elements[i], a.siblings[l][s][i]));
                }
            }
            p.push((z.positions[l], a.positions[l]));
        }
        for i in 0..28 {
            p.push((t.block_header.header.digest[i], a.digest[i]));
        }
        (pre, p)
    }

    /// Read the judged statement and private inputs back from the witness.
    pub fn read_back(&self, run: &Run) -> LeafAsg {
        let c = &self.cso;
        let t = &self.t;
        let z = &t.zk_merkle_proof;
        let g = |x: Target| c.get(run, x);
        let g4 = |x: &[Target; 4]| -> D4 { [g(x[0]), g(x[1]), g(x[2]), g(x[3])] };
        let pis = c.public_inputs(run);
        let pi = |i: usize| pis.get(i).copied().unwrap_or(F::ZERO);
        let pi4 = |i: usize| -> D4 { [pi(i), pi(i + 1), pi(i + 2), pi(i + 3)] };
        let mut digest = [F::ZERO; 28];
        for i in 0..28 {
            digest[i] = g(t.block_header.header.digest[i]);
        }
        let nl = z.siblings.len();
        let mut siblings = vec![];
        let mut positions = vec![];
        for l in 0..MAX_DEPTH {
            if l < nl {
                siblings.push([
                    g4(&z.siblings[l][0].elements),
                    g4(&z.siblings[l][1].elements),
                    g4(&z.siblings[l][2].elements),
                ]);
                positions.push(g(z.positions[l]));
            } else {
                siblings.push([[F::ZERO; 4]; 3]);
                positions.push(F::ZERO);
            }
        }
        LeafAsg {
            asset: pi(0),
            out1: pi(1),
            out2: pi(2),
            fee: pi(3),
            nullifier: pi4(4),
            exit1: pi4(8),
            exit2: pi4(12),
            block_hash: pi4(16),
            block_number: pi(20),
            null_secret: g4(&t.nullifier.secret.elements),
            ua_secret: g4(&t.unspendable_account.secret.elements),
            null_tc: [g(t.nullifier.transfer_count[0]), g(t.nullifier.transfer_count[1])],
            leaf_tc: [g(z.leaf.transfer_count[0]), g(z.leaf.transfer_count[1])],
            ua_account: g4(&t.unspendable_account.account_id.elements),
            leaf_to: g4(&z.leaf.to_account.elements),
            input: g(z.leaf.input_amount),
            root: g4(&z.root_hash.elements),
            depth: g(z.depth),
            siblings,
            positions,
            parent: g4(&t.block_header.header.parent_hash),
            hdr_number: g(t.block_header.header.block_number),
            state_root: g4(&t.block_header.header.state_root),
            extr_root: g4(&t.block_header.header.extrinsics_root),
            hdr_root: g4(&t.block_header.header.zk_tree_root),
            digest,
            flag_pin: None,
        }
    }
}
