/-
  C34 driver: evaluates the specification's OWN executable definitions
  (`groupExits (maskedChildPairs leaves)`, `leaves.find? isRealB`, `digestLt`)
  on private-batch cases exported by the harness, and prints the results.
  Input line:  N  v_1 .. v_{21N}  K  n_1 .. n_{4K}
    (N leaf public-input vectors, then the K digests of the circuit's nullifier region)
  Output per line:
    G s a0 a1 a2 a3 ; s a0 a1 a2 a3 ; ...     grouped exit slots
    R none | R fee b0 b1 b2 b3 number            first real child
    S 1|0 1|0 ...                                 digestLt-or-equal for each adjacent pair of the nullifier region
-/
import WormholeSpec
open WormholeSpec

instance (a b : Digest) : Decidable (digestLt a b) := by unfold digestLt; infer_instance

def dg (xs : Array Nat) (o : Nat) : Digest := ⟨xs[o]!, xs[o+1]!, xs[o+2]!, xs[o+3]!⟩

def leafAt (xs : Array Nat) (o : Nat) : LeafPublic :=
  { assetId := xs[o]!, outputAmount1 := xs[o+1]!, outputAmount2 := xs[o+2]!, volumeFeeBps := xs[o+3]!,
    nullifier := dg xs (o+4), exitAccount1 := dg xs (o+8), exitAccount2 := dg xs (o+12),
    blockHash := dg xs (o+16), blockNumber := xs[o+20]! }

def showD (d : Digest) : String := s!"{d.x0} {d.x1} {d.x2} {d.x3}"

def main (args : List String) : IO Unit := do
  let lines ← IO.FS.lines args[0]!
  for l in lines do
    let toks := (l.splitOn " ").filter (· ≠ "")
    if toks.isEmpty then continue
    let xs : Array Nat := (toks.map String.toNat!).toArray
    let n := xs[0]!
    let leaves : List LeafPublic := (List.range n).map (fun i => leafAt xs (1 + 21 * i))
    let slots := groupExits (maskedChildPairs leaves)
    let g := String.intercalate " ; " (slots.map (fun s => s!"{s.sum} {showD s.account}"))
    IO.println s!"G {g}"
    match leaves.find? isRealB with
    | none => IO.println "R none"
    | some p => IO.println s!"R {p.volumeFeeBps} {showD p.blockHash} {p.blockNumber}"
    let ko := 1 + 21 * n
    let k := xs[ko]!
    let ns : List Digest := (List.range k).map (fun i => dg xs (ko + 1 + 4 * i))
    let rec adj : List Digest → List String
      | a :: b :: rest => (if decide (digestLt a b) || decide (a = b) then "1" else "0") :: adj (b :: rest)
      | _ => []
    IO.println s!"S {String.intercalate " " (adj ns)}"
